"""C01 - parsing time is not polynomial: one @variables rule with an ACYCLIC
chain of k variables, each using the previous one twice, takes time (and
memory) 2**k - with validation on or off, no variable is even used."""
import sys

sys.path.insert(0, __import__('os').environ.get('VERIF_REPO', '/repo'))
import logging
import time

import cssutils

cssutils.log.setLevel(logging.FATAL)


def chain(k):
    return (
        '@variables{v0:1;'
        + ''.join('v%d:var(v%d) var(v%d);' % (i, i - 1, i - 1) for i in range(1, k + 1))
        + '}'
    )


def parse_time(k, **options):
    css = chain(k)
    t = time.process_time()
    sheet = cssutils.CSSParser(**options).parseString(css)
    dt = time.process_time() - t
    assert sheet.cssRules.length == 1
    return dt, len(css), len(sheet.variables['v%d' % k])


times = {}
for options in ({}, {'validate': False}):
    for k in (5, 9, 11, 13):
        times[k], length, size = parse_time(k, **options)
        print(
            '%-20s chain of %2d variables, %3d characters: %.3f s, '
            'sheet.variables holds %d characters for the last one'
            % (options or 'defaults', k, length, times[k], size)
        )

    # a polynomial of low degree grows by (13/9)**3 = 3 from k=9 to k=13,
    # 2**k grows by 16
    ratio = times[13] / max(times[9], 1e-3)
    print('t(13)/t(9) = %.1f' % ratio)
    assert times[13] < 0.5 and ratio < 8, (
        'parseString(%r...) (%d characters, one rule, no cycle) took %.2f s with %s, '
        '%.1f times the time for a chain of 9: the time doubles with every variable '
        '(k=16: 15 s, k=18: 60 s for 397 characters, k=30: never)'
        % (chain(13)[:60], length, times[13], options or 'the default options', ratio)
    )
print('ok')
