"""C12: CSSNamespaceRule.cssText = text on a rule object which was used before
(log mode): prefix and the serialised text come from the new text, the
namespaceURI attribute (and with it the namespaces of the sheet) from the text
parsed EARLIER."""
import sys
sys.path.insert(0, __import__('os').environ.get('VERIF_REPO', '/repo'))
import logging

import cssutils
from cssutils import css

cssutils.log.setLevel(logging.FATAL)
cssutils.log.raiseExceptions = False   # log mode, as during parsing

NEW = '@namespace p "http://new";'

fresh = css.CSSNamespaceRule()
fresh.cssText = NEW

used = css.CSSNamespaceRule()
used.cssText = '@namespace "http://old";'   # earlier call
before = (used.cssText, used.prefix, used.namespaceURI)
used.cssText = NEW                           # later call

cssutils.log.raiseExceptions = True
f = (fresh.cssText, fresh.prefix, fresh.namespaceURI)
u = (used.cssText, used.prefix, used.namespaceURI)
assert u == f or u == before, (
    'CSSNamespaceRule.cssText = %r on a rule that parsed \'@namespace '
    '"http://old";\' before is neither accepted nor rejected as a whole:\n'
    '  fresh object:  %r\n  reused object: %r' % (NEW, f, u))
print('ok')
