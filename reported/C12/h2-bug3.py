"""C12: Property.cssText = text on a Property object which was used before:
if the new text has a malformed priority part ("top: 0 !") the name and the
value are taken from the new text but the priority of the text parsed EARLIER
survives (and the property stays wellformed), so the result of parsing the
text depends on what the object parsed before."""
import sys
sys.path.insert(0, __import__('os').environ.get('VERIF_REPO', '/repo'))
import logging

import cssutils
from cssutils import css

cssutils.log.setLevel(logging.FATAL)
cssutils.log.raiseExceptions = False   # log mode, as during parsing

NEW = 'top: 0 !'

fresh = css.Property()
fresh.cssText = NEW

used = css.Property()
used.cssText = 'left: 1px !important'   # earlier call
used.cssText = NEW                      # later call, same text as for `fresh`

cssutils.log.raiseExceptions = True
f = (fresh.cssText, fresh.name, fresh.value, fresh.priority, fresh.wellformed)
u = (used.cssText, used.name, used.value, used.priority, used.wellformed)
assert u == f, (
    'Property.cssText = %r gives a different property on an object that '
    'parsed "left: 1px !important" before:\n  fresh object:  %r\n  reused '
    'object: %r' % (NEW, f, u))
print('ok')
