"""C12: CSSUnknownRule.cssText = text on a rule object which was used before
(log mode): the at-keyword of the text parsed EARLIER is kept while the rest
of the rule comes from the new text - the result is a rule which was in
neither text."""
import sys
sys.path.insert(0, __import__('os').environ.get('VERIF_REPO', '/repo'))
import logging

import cssutils
from cssutils import css

cssutils.log.setLevel(logging.FATAL)
cssutils.log.raiseExceptions = False   # log mode, as during parsing

NEW = '@y {a{b:c}}'

fresh = css.CSSUnknownRule()
fresh.cssText = NEW

used = css.CSSUnknownRule()
used.cssText = '@x "old";'     # earlier call
before = used.cssText
used.cssText = NEW             # later call, same text as for `fresh`

cssutils.log.raiseExceptions = True
f = (fresh.cssText, fresh.atkeyword, fresh.wellformed)
u = (used.cssText, used.atkeyword, used.wellformed)
assert u == f or used.cssText == before, (
    'CSSUnknownRule.cssText = %r on a rule that parsed \'@x "old";\' before '
    'is neither accepted nor rejected as a whole:\n  fresh object:  %r\n  '
    'reused object: %r' % (NEW, f, u))
print('ok')
