"""C12: CSSCapture.saveto(minified=True) switches the library-wide serializer
preferences to 'minified' and never switches them back: everything that is
serialised afterwards in the process (also saveto(minified=False) and plain
sheet.cssText) is minified although no preference was set explicitly."""
import sys
sys.path.insert(0, __import__('os').environ.get('VERIF_REPO', '/repo'))
import contextlib
import io
import logging
import os
import tempfile

import cssutils
from cssutils.script import CSSCapture

log = logging.getLogger('c12demo')
log.addHandler(logging.NullHandler())
log.propagate = False

tmp = tempfile.mkdtemp()
html = os.path.join(tmp, 'doc.html')
with open(html, 'w') as f:
    f.write('<html><head><style type="text/css">a { top: 0; left: 1px }</style>'
            '</head><body></body></html>')
TEXT = 'a { top: 0; left: 1px }'


def capture_and_save(outdir, minified):
    cap = CSSCapture(log=log)
    with contextlib.redirect_stdout(io.StringIO()):
        cap.capture('file://' + html)
    target = os.path.join(tmp, outdir)
    cap.saveto(target, minified=minified)
    saved = {}
    for root, _, files in os.walk(target):
        for name in files:
            with open(os.path.join(root, name), 'rb') as fd:
                saved[name] = fd.read()
    return saved


prefs_before = dict(cssutils.ser.prefs.__dict__)
plain_before = cssutils.parseString(TEXT).cssText
saved_before = capture_and_save('out1', minified=False)

capture_and_save('out2', minified=True)  # the earlier call

prefs_after = dict(cssutils.ser.prefs.__dict__)
plain_after = cssutils.parseString(TEXT).cssText
saved_after = capture_and_save('out3', minified=False)

changed = {k: (prefs_before[k], prefs_after[k]) for k in prefs_before
           if prefs_before[k] != prefs_after[k]}
assert saved_after == saved_before, (
    'saveto(minified=False) writes something else after an earlier '
    'saveto(minified=True): %r != %r' % (saved_after, saved_before))
assert plain_after == plain_before, (
    'sheet.cssText of the same text differs after saveto(minified=True): '
    '%r != %r' % (plain_after, plain_before))
assert not changed, 'serializer preferences changed by saveto(): %r' % changed
print('ok')
