"""C12: the explicitly set option cssutils.settings.set('DXImageTransform.Microsoft',
True) is only honoured by tokenizers which are created after the call.  A
CSSParser object which exists already (and the module-wide tokenizers created
at import time) keep the productions compiled when they were constructed:
the same text, parsed with the same arguments under the same explicitly set
options gives different results depending on whether the parser object was
created before or after the option was set (state hidden in the parser)."""
import sys
sys.path.insert(0, __import__('os').environ.get('VERIF_REPO', '/repo'))
import logging

import cssutils
import cssutils.settings

cssutils.log.setLevel(logging.FATAL)

TEXT = ('a {filter: progid:DXImageTransform.Microsoft.gradient('
        'startColorStr=#111, EndColorStr=#222)}')

early = cssutils.CSSParser()          # earlier call sequence: a parser exists,
early.parseString('b {top: 0}')       # ... has been used,
cssutils.settings.set('DXImageTransform.Microsoft', True)   # option set explicitly
late = cssutils.CSSParser()

r_early = early.parseString(TEXT).cssText
r_late = late.parseString(TEXT).cssText
r_module = cssutils.parseString(TEXT).cssText
assert r_late == r_module, (r_late, r_module)
assert r_early == r_late, (
    'same text, same arguments, same explicitly set options, but the result '
    'depends on when the parser object was created:\n  parser created before '
    'settings.set(): %r\n  parser created after:            %r' % (r_early, r_late))
print('ok')
