"""C16 hunt2 bug4: white space between a namespace prefix and the name
('p| b', '[p| b]', ':not(*| b)') is accepted and read as the qualified name,
so a selector list holding such a member is not rejected."""
import sys
sys.path.insert(0, __import__('os').environ.get('VERIF_REPO', '/repo'))
import logging
import cssutils
from cssutils.css import Selector, SelectorList

cssutils.log.setLevel(logging.FATAL)
cssutils.log.raiseExceptions = False
NS = {'p': 'uri:p'}

failures = []
# controls: white space at other places inside a simple selector is rejected
for text in ['[p |b]', 'p| *', '*| *', 'a. b', 'a: hover', ':not (a)']:
    assert not Selector((text, NS)).seq, 'control %r should be rejected' % text
assert not len(SelectorList(('x, [p |b], y', NS)))

for text in ['p| b', '*|\tb', '|\nb', '[p| b]', '[*| b=c]', ':not(p| b)', 'a > p|  b.c']:
    s = Selector((text, NS))
    if s.seq:
        failures.append('Selector(%r) accepted as %r %r'
                        % (text, s.selectorText, [(i.type, i.value) for i in s.seq]))
for text in ['x, p| b, y', 'x, [*| b], y']:
    sl = SelectorList((text, NS))
    if len(sl):
        failures.append('SelectorList(%r) kept with %d members: %r'
                        % (text, len(sl), sl.selectorText))
sheet = cssutils.parseString('@namespace p "uri:p"; x, p| b, y {left:0}')
if len(sheet.cssRules) > 1:
    failures.append("parseString('... x, p| b, y {left:0}') keeps the rule as %r"
                    % sheet.cssRules[1].selectorText)

assert not failures, ('white space inside a qualified name does not invalidate the '
                      'selector / the list:\n  ' + '\n  '.join(failures))
print('ok')
