"""C16 hunt2 bug2: a plain type/universal selector that is attached to a sheet
which declares a default namespace is serialised as '|b' (= no namespace); the
serialised selector reparses (in that very sheet) to a different type selector."""
import sys
sys.path.insert(0, __import__('os').environ.get('VERIF_REPO', '/repo'))
import logging
import cssutils
from cssutils.css import Selector, CSSStyleRule

cssutils.log.setLevel(logging.FATAL)
cssutils.log.raiseExceptions = False


def items(sel):
    return [(i.type, i.value) for i in sel.seq]


failures = []
for text in ['b', 'a > *', 'a:not(c).d', 'a + b::first-line']:
    rule = CSSStyleRule(selectorText=text, style='left:0')
    sel = rule.selectorList[0]
    before_items, before_spec, before_text = items(sel), sel.specificity, sel.selectorText
    assert before_text == text

    sheet = cssutils.parseString('@namespace "uri:default";')
    sheet.add(rule)
    assert rule.parentStyleSheet is sheet
    sel = rule.selectorList[0]
    assert sel.specificity == before_spec and items(sel) == before_items

    after_text = sel.selectorText
    # reparse the serialised selector where it lives: in the sheet
    sheet.add(after_text + ' {top:0}')
    re_sel = sheet.cssRules[-1].selectorList[0]
    if items(re_sel) != items(sel):
        failures.append('%r attached to a sheet with a default namespace is written %r, '
                        'which reparses there to %r instead of %r'
                        % (text, after_text, items(re_sel), items(sel)))
    # and the whole sheet
    sheet2 = cssutils.parseString(sheet.cssText)
    re_sel2 = sheet2.cssRules[1].selectorList[0]
    if items(re_sel2) != items(sel):
        failures.append('sheet round trip of %r: %r' % (text, items(re_sel2)))

assert not failures, ('serialised selector does not reparse to the same simple '
                      'selectors after attaching it to a sheet:\n  ' + '\n  '.join(failures))
print('ok')
