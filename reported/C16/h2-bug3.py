"""C16 hunt2 bug3: a comment between a namespace prefix and the name swallows
the prefix: 'q|/**/b' with an UNDECLARED prefix q is accepted (so a list holding
it is not rejected) and 'p|/**/b' silently becomes the un-namespaced 'b'."""
import sys
sys.path.insert(0, __import__('os').environ.get('VERIF_REPO', '/repo'))
import logging
import cssutils
from cssutils.css import Selector, SelectorList

cssutils.log.setLevel(logging.FATAL)
cssutils.log.raiseExceptions = False
NS = {'p': 'uri:p'}


def struct(sel):
    "simple selectors and combinators, comments left out"
    return [(i.type, i.value) for i in sel.seq if i.type != 'COMMENT']


failures = []
# controls
assert not Selector(('q|b', NS)).seq, 'undeclared prefix is rejected'
assert not len(SelectorList(('x, q|b, y', NS))), 'list with undeclared prefix is rejected'
assert struct(Selector(('p|b', NS))) == [('type-selector', ('uri:p', 'b'))]

# 1. undeclared prefix + comment: member is invalid whatever one thinks of the comment
for text in ['q|/**/b', '[q|/**/b]', ':not(q|/**/b)', 'a q|/*c*/b.c']:
    s = Selector((text, NS))
    if s.seq:
        failures.append('Selector(%r) with undeclared prefix q accepted as %r %r'
                        % (text, s.selectorText, struct(s)))
sl = SelectorList(('x, q|/**/b, y', NS))
if len(sl):
    failures.append("SelectorList('x, q|/**/b, y') kept with %d members: %r"
                    % (len(sl), sl.selectorText))
sheet = cssutils.parseString('x, q|/**/b, y {left:0}')
if len(sheet.cssRules):
    failures.append("parseString('x, q|/**/b, y {left:0}') keeps the rule: %r" % sheet.cssText)

# 2. declared prefix: the comment changes the structure (namespace is dropped)
for text, plain in [('p|/**/b', 'p|b'), ('[p|/**/b=c]', '[p|b=c]'), ('*|/**/b', '*|b')]:
    s, ref = Selector((text, NS)), Selector((plain, NS))
    if s.seq and struct(s) != struct(ref):
        failures.append('%r is accepted but parsed as %r, without comment %r gives %r'
                        % (text, struct(s), plain, struct(ref)))

assert not failures, ('a comment after a namespace prefix swallows the prefix:\n  '
                      + '\n  '.join(failures))
print('ok')
