"""C16 hunt2 bug1: a nested FUNCTION token inside a functional pseudo-class is
glued to the pseudo name, so selectors with unbalanced parentheses such as
':lang(g(en)' or ':not(o(dd)' are accepted and a list holding one is kept."""
import sys
sys.path.insert(0, __import__('os').environ.get('VERIF_REPO', '/repo'))
import logging
import cssutils
from cssutils.css import Selector, SelectorList

cssutils.log.setLevel(logging.FATAL)
cssutils.log.raiseExceptions = False

failures = []
# controls: the balanced nonsense is rejected, so is a plain second '('
for text in [':lang(g(en))', 'a:nth-child((2)', ':not(:not(a)']:
    assert not Selector(text).seq, 'control %r should be rejected' % text

for text in [':lang(g(en)', 'a:nth-child(n(2)', ':not(o(dd)', '::a(b(c)', ':a(b(c(d)']:
    s = Selector(text)
    if s.seq:
        failures.append('Selector(%r) accepted: items %r specificity %r'
                        % (text, [(i.type, i.value) for i in s.seq], s.specificity))

for text in ['x, y:lang(g(en)', 'x, :not(o(dd)']:
    sl = SelectorList(text)
    if len(sl):
        failures.append('SelectorList(%r) kept with %d members: %r'
                        % (text, len(sl), sl.selectorText))
    sheet = cssutils.parseString(text + ' {left:0}')
    if len(sheet.cssRules):
        failures.append('parseString(%r) keeps the rule: %r'
                        % (text + ' {left:0}', sheet.cssText))

assert not failures, ('invalid selectors (unbalanced "(" inside a functional '
                      'pseudo) are accepted, list not rejected:\n  '
                      + '\n  '.join(failures))
print('ok')
