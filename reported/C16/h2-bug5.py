"""C16 hunt2 bug5: an attribute selector with a namespace prefix whose URI is
also the default namespace is serialised WITHOUT prefix ('[p|a]' -> '[a]').
Default namespaces do not apply to attributes, so the text reparses to the
attribute 'a' in no namespace: a different simple selector."""
import sys
sys.path.insert(0, __import__('os').environ.get('VERIF_REPO', '/repo'))
import logging
import cssutils
from cssutils.css import Selector

cssutils.log.setLevel(logging.FATAL)
cssutils.log.raiseExceptions = False


def items(sel):
    return [(i.type, i.value) for i in sel.seq]


failures = []
NS = {'': 'uri:p', 'p': 'uri:p'}
# control: with a different default namespace everything round trips
ctl = {'': 'uri:other', 'p': 'uri:p'}
for text in ['[p|a]', 'b[p|a~="c"]', ':not([p|a])']:
    s = Selector((text, ctl))
    assert items(Selector((s.selectorText, ctl))) == items(s), 'control ' + text

for text in ['[p|a]', 'b[p|a~="c"]', 'p|b[p|a|=c]', ':not([p|a])']:
    s = Selector((text, NS))
    assert s.seq, text
    ser = s.selectorText
    s2 = Selector((ser, NS))
    if items(s2) != items(s) or s2.specificity != s.specificity:
        failures.append('%r is written %r which reparses (same namespaces) to %r instead of %r'
                        % (text, ser, items(s2), items(s)))

# the same through a sheet: plain CSS in, different selector out
css = '@namespace p "uri:p"; @namespace "uri:p"; b[p|a] {left:0}'
sheet = cssutils.parseString(css)
sel = [r for r in sheet.cssRules if r.type == r.STYLE_RULE][0].selectorList[0]
out = sheet.cssText
sheet2 = cssutils.parseString(out)
sel2 = [r for r in sheet2.cssRules if r.type == r.STYLE_RULE][0].selectorList[0]
if items(sel2) != items(sel):
    failures.append('sheet %r is written %r: selector %r became %r'
                    % (css, out, items(sel), items(sel2)))

assert not failures, ('namespaced attribute selector loses its namespace in the '
                      'serialisation:\n  ' + '\n  '.join(failures))
print('ok')
