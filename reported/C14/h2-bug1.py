"""C14: addProfiles with the name of a profile that is registered already
(= replacing it, as addProfile does) loses the macros of the new definition.

Same final contents, different verdicts (or a KeyError and a broken registry)
depending on whether addProfile or addProfiles was used / on whether the name
had been registered before.
"""
import sys

sys.path.insert(0, __import__('os').environ.get('VERIF_REPO', '/repo'))

import cssutils
from cssutils.profiles import Profiles

cssutils.log.raiseExceptions = False

PROBES = [('x', 'a'), ('x', 'b'), ('x', 'red'), ('color', 'red'), ('color', 'b')]


def verdicts(reg):
    out = []
    for name, value in PROBES:
        try:
            out.append((name, value, reg.validate(name, value),
                        reg.validateWithProfile(name, value)[0]))
        except Exception as e:  # a registry must never end up here
            out.append((name, value, 'RAISES %s: %s' % (type(e).__name__, e)))
    return out


failures = []

# ---- variant 1: the new definition overrides a built-in macro ('color')
NEW = ('X', {'x': '{color}'}, {'color': 'b'})

ref = Profiles(log=cssutils.log)          # no history: X registered once
ref.addProfiles([NEW])

viaAddProfile = Profiles(log=cssutils.log)  # X replaced with addProfile
viaAddProfile.addProfile('X', {'x': '{color}'}, {'color': 'a'})
viaAddProfile.addProfile(*NEW)

viaAddProfiles = Profiles(log=cssutils.log)  # X replaced with addProfiles
viaAddProfiles.addProfile('X', {'x': '{color}'}, {'color': 'a'})
viaAddProfiles.addProfiles([NEW])

assert ref.profiles == viaAddProfile.profiles == viaAddProfiles.profiles
assert verdicts(ref) == verdicts(viaAddProfile), 'addProfile replacement differs (unexpected)'
if verdicts(ref) != verdicts(viaAddProfiles):
    failures.append(
        "variant 1: registries with identical contents %r disagree:\n"
        "   X registered once        : %r\n"
        "   X replaced by addProfiles: %r\n"
        "   (the macro 'color': 'b' of the new definition of X is lost)"
        % (ref.profiles[-1:], verdicts(ref), verdicts(viaAddProfiles))
    )

# ---- variant 2: the new definition uses a macro of its own ('m')
NEW2 = ('X', {'x': '{m}'}, {'m': 'b'})
ref2 = Profiles(log=cssutils.log)
ref2.addProfiles([NEW2])

reg2 = Profiles(log=cssutils.log)
reg2.addProfile('X', {'x': '{m}'}, {'m': 'a'})
try:
    reg2.addProfiles([NEW2])
except Exception as e:
    failures.append(
        "variant 2: addProfiles([('X', {'x': '{m}'}, {'m': 'b'})]) on a registry "
        "in which X is registered raises %s: %s" % (type(e).__name__, e)
    )
if verdicts(ref2) != verdicts(reg2):
    failures.append(
        "variant 2: verdicts afterwards\n   expected %r\n   got      %r"
        % (verdicts(ref2), verdicts(reg2))
    )

assert not failures, '\n' + '\n'.join(failures)
print('ok')
