"""C04: inside @page a malformed declaration that holds the at-keyword of a margin
box somewhere behind its first token ("$ @top-left;", "(@top-left);",
"foo: bar @top-left;") is not contained: CSSPageRule cuts the block at every
margin at-keyword token, wherever it stands, and hands all remaining tokens to a
MarginRule, so the valid declarations (and margin boxes) behind it are lost."""
import logging
import sys

sys.path.insert(0, __import__('os').environ.get('VERIF_REPO', '/repo'))
import cssutils

cssutils.log.setLevel(logging.FATAL)


def dom(text):
    sheet = cssutils.parseString(text)
    out = []
    for r in sheet.cssRules:
        if r.type == r.PAGE_RULE:
            out.append(
                (
                    '@page ' + r.selectorText,
                    [(p.name, p.value) for p in r.style.getProperties(all=True)],
                    [
                        (m.margin, [(p.name, p.value) for p in m.style.getProperties(all=True)])
                        for m in r.cssRules
                        if m.margin is not None
                    ],
                )
            )
        else:
            out.append((r.type, r.cssText))
    return out


TEMPLATE = '@page :first { size: a4; %s margin: 1in; @bottom-center { content: "x" } } b { y: 2 }'
base = dom(TEMPLATE % '')
assert base[0] == (
    '@page :first',
    [('size', 'a4'), ('margin', '1in')],
    [('@bottom-center', [('content', '"x"')])],
), base

failures = []
# control: the same garbage without the margin at-keyword is contained
for g in ['$ @foo;', '(@foo);', 'foo: bar @foo;']:
    assert dom(TEMPLATE % g) == base, (g, dom(TEMPLATE % g))

for g in ['$ @top-left;', '(@top-left);', 'foo: bar @top-left;', '$ [ @top-left { } ];']:
    got = dom(TEMPLATE % g)
    if got != base:
        failures.append('malformed declaration %r: expected %r\n      got %r' % (g, base, got))

assert not failures, 'malformed declaration in @page not contained:\n  ' + '\n  '.join(failures)
print('OK')
