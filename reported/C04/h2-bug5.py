r"""C04: a malformed declaration (or a rule with an invalid selector) whose FIRST
token is an escaped opening bracket - "\7b ;", "\28 x;", "\5b $;" - is not
contained.  The tokenizer decodes the escape to the IDENT "{", "(" or "[";
Base._tokensupto2 ignores IDENT tokens inside its loop (repaired earlier) but
still counts the *start token* by its value only, so the scan starts one bracket
deep and swallows everything up to the end of the block / of the sheet."""
import logging
import sys

sys.path.insert(0, __import__('os').environ.get('VERIF_REPO', '/repo'))
import cssutils

cssutils.log.setLevel(logging.FATAL)


def dom(text):
    sheet = cssutils.parseString(text)
    out = []
    for r in sheet.cssRules:
        if r.type == r.STYLE_RULE:
            out.append((r.selectorText, [(p.name, p.value) for p in r.style.getProperties(all=True)]))
        elif r.type == r.MEDIA_RULE:
            out.append(('@media ' + r.media.mediaText, [x.cssText for x in r.cssRules]))
        else:
            out.append((r.type, r.cssText))
    return out


failures = []

DECL = 'a { left: 0; %s top: 0; color: red } b { y: 2 }'
base = dom(DECL % '')
# control: the same escapes behind another token are contained (earlier repair)
for g in ['$ \\7b ;', '$ \\28 x;', '$ \\5b ;']:
    assert dom(DECL % g) == base, (g, dom(DECL % g))
# no colon / no value: malformed declarations
for g in ['\\7b ;', '\\28  x;', '\\5b $;', '\\7b : ;']:
    got = dom(DECL % g)
    if got != base:
        failures.append('malformed declaration %r: expected %r, got %r' % (g, base, got))

RULE = 'a { left: 0 } %s b { y: 2 } @media print { c { top: 0 } %s d { z: 1 } } e { w: 3 }'
base = dom(RULE % ('', ''))
for g in ['$ \\28 { top: 0 }', '$ \\5b { top: 0 }']:
    assert dom(RULE % (g, g)) == base, (g, dom(RULE % (g, g)))
for g in ['\\28 $ { top: 0 }', '\\5b $ { top: 0 }', '\\7b $ { top: 0 }']:
    got = dom(RULE % (g, ''))
    if got != base:
        failures.append('rule with invalid selector %r in the sheet: expected %r, got %r' % (g, base, got))
    got = dom(RULE % ('', g))
    if got != base:
        failures.append('rule with invalid selector %r in @media: expected %r, got %r' % (g, base, got))

assert not failures, 'garbage starting with an escaped bracket not contained:\n  ' + '\n  '.join(failures)
print('OK')
