"""C04: garbage holding "url(f(1))" (parentheses balanced) is not contained: the
tokenizer makes the URI token "url(f(1)" (its url macro accepts "(" but not ")")
and leaves a lone ")" which drives the bracket counter of the recovery scan below
zero, so everything up to the end of the sheet is swallowed."""
import logging
import sys

sys.path.insert(0, __import__('os').environ.get('VERIF_REPO', '/repo'))
import cssutils

cssutils.log.setLevel(logging.FATAL)


def dom(text):
    sheet = cssutils.parseString(text)
    out = []
    for r in sheet.cssRules:
        if r.type == r.STYLE_RULE:
            out.append(
                (r.selectorText, [(p.name, p.value) for p in r.style.getProperties(all=True)])
            )
        else:
            out.append((r.type, r.cssText))
    return out


failures = []

# 1. malformed declaration
base = dom('a { left: 0; top: 0 } b { y: 2 }')
got = dom('a { left: 0; background: url(f(1)); top: 0 } b { y: 2 }')
# the damaged declaration itself may be missing (or present), nothing else
got_wo = [(s, [p for p in ps if p[0] != 'background']) for s, ps in got]
if got_wo != base:
    failures.append('malformed declaration "background: url(f(1));": expected %r, got %r' % (base, got))

# 2. rule with an invalid selector
base = dom('a { left: 0 } b { y: 2 }')
got = dom('a { left: 0 } c[d=url(f(1))] { top: 0 } b { y: 2 }')
if got != base:
    failures.append('rule with invalid selector "c[d=url(f(1))] {...}": expected %r, got %r' % (base, got))

# 3. unknown at-rule
got = dom('a { left: 0 } @foo url(f(1)); b { y: 2 }')
got_wo = [r for r in got if not (isinstance(r[0], int))]
if got_wo != base:
    failures.append('unknown at-rule "@foo url(f(1));": expected %r (+ the at-rule), got %r' % (base, got))

assert not failures, 'garbage with balanced brackets not contained:\n  ' + '\n  '.join(failures)
print('OK')
