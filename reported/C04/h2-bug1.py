"""C04: a malformed @page / @media / @font-face / @variables / @namespace rule is not
contained: it is kept as an empty phantom rule (or at least advances the header
state of the sheet parser), so the valid @import and @namespace rules behind it -
and with them every rule using the namespace prefix - are lost."""
import logging
import sys

sys.path.insert(0, __import__('os').environ.get('VERIF_REPO', '/repo'))
import cssutils

cssutils.log.setLevel(logging.FATAL)
# no file access for the @import rules
parser = cssutils.CSSParser(fetcher=lambda url: (None, ''))


def dom(text):
    sheet = parser.parseString(text)
    return [(r.type, r.cssText) for r in sheet.cssRules]


def is_subsequence(small, big):
    it = iter(big)
    return all(any(x == y for y in it) for x in small)


TEMPLATE = '@import "a.css"; %s @import "b.css"; @namespace p "u"; p|a { x: 1 } b { y: 2 }'
base = dom(TEMPLATE % '')
assert len(base) == 5, base

# balanced garbage, each a single (malformed) at-rule
GARBAGE = [
    '@page $ {}',
    '@media ;',
    '@media $ { a {} }',
    '@font-face $ {}',
    '@variables $ {}',
    '@namespace ;',
]
failures = []
for g in GARBAGE:
    got = dom(TEMPLATE % g)
    if not is_subsequence(base, got):
        lost = [r for r in base if r not in got]
        failures.append(
            'inserting %r: rules of the undamaged sheet are lost: %r\n      DOM of the damaged sheet: %r'
            % (g, [t for _, t in lost], [t for _, t in got])
        )

assert not failures, 'malformed at-rule not contained:\n  ' + '\n  '.join(failures)
print('OK')
