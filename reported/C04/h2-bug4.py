"""C04: one malformed declaration in an @variables block is not contained: the
block is read by a grammar without error recovery, so all variables of the rule -
those in front of the malformed declaration too - are lost (the same garbage in a
style rule costs only the malformed declaration)."""
import logging
import sys

sys.path.insert(0, __import__('os').environ.get('VERIF_REPO', '/repo'))
import cssutils

cssutils.log.setLevel(logging.FATAL)


def dom(text):
    sheet = cssutils.parseString(text)
    rules = []
    for r in sheet.cssRules:
        if r.type == r.VARIABLES_RULE:
            rules.append(('@variables', [(k, r.variables[k]) for k in r.variables.keys()]))
        elif r.type == r.STYLE_RULE:
            rules.append((r.selectorText, [(p.name, p.value) for p in r.style.getProperties(all=True)]))
        else:
            rules.append((r.type, r.cssText))
    return rules, sorted((k, sheet.variables[k]) for k in sheet.variables.keys())


TEMPLATE = '@variables { a: 1px; %s b: red } c { color: var(b); width: var(a) }'
base = dom(TEMPLATE % '')
assert base[0][0] == ('@variables', [('a', '1px'), ('b', 'red')]), base
assert base[1] == [('a', '1px'), ('b', 'red')], base

# control: in a style rule the garbage is contained
for g in ['$ x;', 'foo;', '(x) y;', 'x: ;']:
    t = 'c { left: 0; %s top: 0 }'
    assert dom(t % g)[0] == dom(t % '')[0], g

failures = []
for g in ['$ x;', 'foo;', '(x) y;', 'x: ;']:
    got = dom(TEMPLATE % g)
    if got != base:
        failures.append('malformed declaration %r: expected %r\n      got %r' % (g, base, got))

assert not failures, 'malformed declaration in @variables not contained:\n  ' + '\n  '.join(failures)
print('OK')
