"""C03: a non-ASCII character written as a simple CSS escape (backslash +
character, e.g. "G\\öteborg") in a sheet whose @charset cannot encode it:
the serialiser's 'escapecss' handler writes the hex escape BEHIND the backslash
that is still in the DOM value, i.e. an escaped backslash followed by hex
digits. Reparsing gives other values, or loses the declaration."""
import sys

sys.path.insert(0, __import__('os').environ.get('VERIF_REPO', '/repo'))
import logging

import cssutils

cssutils.log.setLevel(logging.FATAL)

src = (
    '@charset "ascii";\n'
    'a { font-family: G\\öteborg; content: "\\ä" }\n'
    'b { background: url(\\ä.png) }\n'
)
sheet1 = cssutils.parseString(src)
text1 = sheet1.cssText
sheet2 = cssutils.parseString(text1)
text2 = sheet2.cssText


def values(sheet):
    out = []
    for rule in sheet.cssRules:
        if rule.type == rule.STYLE_RULE:
            for p in rule.style.getProperties(all=True):
                out.append((rule.selectorText, p.name, [v.cssText for v in p.propertyValue]))
    return out


v1, v2 = values(sheet1), values(sheet2)
print('source        ', repr(src))
print('serialisation ', text1)
print('values DOM 1  ', v1)
print('values DOM 2  ', v2)
assert v1 == v2, (
    'values changed / declarations lost by serialise -> parse:\n'
    f'  DOM 1 {v1}\n  DOM 2 {v2}\n  text  {text1!r}'
)
assert text1 == text2
print('ok')
