"""C03: a quoted url(...) that contains a CSS line continuation (backslash
newline, legal inside a string) changes its target on serialise -> parse."""
import sys

sys.path.insert(0, __import__('os').environ.get('VERIF_REPO', '/repo'))
import logging

import cssutils

cssutils.log.setLevel(logging.FATAL)

src = '@import url("pa\\\nrt.css");\na { background: url("im\\\ng.png") }'
sheet1 = cssutils.parseString(src)
text1 = sheet1.cssText
sheet2 = cssutils.parseString(text1)
text2 = sheet2.cssText


def targets(sheet):
    imp = [r for r in sheet.cssRules if r.type == r.IMPORT_RULE]
    sty = [r for r in sheet.cssRules if r.type == r.STYLE_RULE]
    return (
        imp[0].href if imp else None,
        sty[0].style.getProperty('background').propertyValue[0].uri if sty else None,
    )


t1, t2 = targets(sheet1), targets(sheet2)
print('source          ', repr(src))
print('serialisation   ', text1)
print('targets in DOM 1', t1)
print('targets in DOM 2', t2)
assert t1 == t2, (
    'import target / url value changed by serialise -> parse: '
    f'{t1!r} became {t2!r} (serialisation was {text1!r})'
)
assert text1 == text2
print('ok')
