"""C08 hunt2 bug2: the byte order of a big-endian UTF-16/UTF-32 referring sheet
(known from its BOM) is lost; an imported sheet without encoding information of
its own is decoded with the generic name 'utf-16'/'utf-32', which Python reads as
LITTLE endian when there is no BOM: the imported sheet is garbage / unavailable."""
import sys

sys.path.insert(0, __import__('os').environ.get('VERIF_REPO', '/repo'))

import codecs
import logging

import cssutils

cssutils.log.setLevel(logging.FATAL)

TEXT = '"ж€"'


def content(sheet, sel):
    for r in sheet.cssRules:
        if r.type == r.STYLE_RULE and r.selectorText == sel:
            return r.style.getPropertyValue('content')
    return None


def imported(sheet):
    for r in sheet.cssRules:
        if r.type == r.IMPORT_RULE:
            return r.styleSheet
    return None


problems = []
for bom, enc in (
    (codecs.BOM_UTF16_LE, 'utf-16-le'),  # control: works
    (codecs.BOM_UTF16_BE, 'utf-16-be'),
    (codecs.BOM_UTF32_LE, 'utf-32-le'),  # control: works
    (codecs.BOM_UTF32_BE, 'utf-32-be'),
):
    files = {
        # referring sheet: BOM says which UTF-16/32 flavour it is
        'a.css': (None, bom + ('@import "b.css"; a{content:%s}' % TEXT).encode(enc)),
        # imported sheet: same encoding, no BOM, no @charset, no transport charset
        'b.css': (None, ('b{content:%s}' % TEXT).encode(enc)),
    }
    parser = cssutils.CSSParser(fetcher=lambda url: files.get(url.rsplit('/', 1)[-1]))
    sheet = parser.parseUrl('http://example.org/a.css')
    assert content(sheet, 'a') == TEXT, (enc, 'referring sheet itself')
    imp = imported(sheet)
    got = content(imp, 'b')
    if got != TEXT:
        problems.append(
            'referring sheet is %s (BOM): the imported sheet without encoding '
            'information must be decoded as %s too, got content %r, encoding %r, '
            'text %r' % (enc, enc, got, imp.encoding, imp.cssText[:60])
        )

assert not problems, '\n'.join(problems)
print('ok')
