"""C08 hunt2 bug1: a sheet parsed from BYTES by parseString()/parseFile() forgets the
encoding it was decoded with unless an @charset rule survives in its DOM; its
@import targets are then decoded as UTF-8 instead of with the referring sheet's
encoding (4th step of the precedence).  parseUrl() on the very same bytes does it
right."""
import sys

sys.path.insert(0, __import__('os').environ.get('VERIF_REPO', '/repo'))

import codecs
import logging

import cssutils

cssutils.log.setLevel(logging.FATAL)

TEXT = 'ж€'


def content(sheet, sel):
    for r in sheet.cssRules:
        if r.type == r.STYLE_RULE and r.selectorText == sel:
            return r.style.getPropertyValue('content')
    return None


def imported(sheet):
    for r in sheet.cssRules:
        if r.type == r.IMPORT_RULE:
            return r.styleSheet
    return None


problems = []

# --- case 1: the referring sheet's encoding is known from its BOM -------------
parent = codecs.BOM_UTF16_LE + '@import "b.css"; a{content:"ж€"}'.encode('utf-16-le')
# the imported sheet has neither BOM nor @charset nor a transport charset
child = 'b{content:"ж€"}'.encode('utf-16-le')
files = {'a.css': (None, parent), 'b.css': (None, child)}


def fetcher(url):
    return files.get(url.rsplit('/', 1)[-1])


parser = cssutils.CSSParser(fetcher=fetcher)

# reference: same bytes, same fetcher, read through parseUrl
ref = parser.parseUrl('http://example.org/a.css')
assert content(ref, 'a') == '"%s"' % TEXT
assert content(imported(ref), 'b') == '"%s"' % TEXT, 'reference (parseUrl) broken?'

sheet = parser.parseString(parent, href='http://example.org/a.css')
assert content(sheet, 'a') == '"%s"' % TEXT  # the parent itself was decoded as UTF-16
got = content(imported(sheet), 'b')
if got != '"%s"' % TEXT:
    problems.append(
        'parseString(UTF-16 bytes with BOM): imported sheet without encoding '
        'information must be decoded with the referring sheet\'s encoding (UTF-16) '
        'as parseUrl does, but it was decoded as %r and its content is %r (rules: %r)'
        % (imported(sheet).encoding, got, imported(sheet).cssText)
    )

# --- case 2: the referring sheet's encoding is known from its @charset rule ----
# "ISO_8859-1:1987" is the IANA name of Latin-1; Python decodes it, but the DOM
# drops the rule (no IDENT), and with it the only record of the encoding used
parent2 = '@charset "ISO_8859-1:1987"; @import "b.css"; a{content:"é"}'.encode('latin-1')
files2 = {'a.css': (None, parent2), 'b.css': (None, 'b{content:"é"}'.encode('latin-1'))}
parser2 = cssutils.CSSParser(fetcher=lambda url: files2.get(url.rsplit('/', 1)[-1]))
ref2 = parser2.parseUrl('http://example.org/a.css')
assert content(imported(ref2), 'b') == '"é"', 'reference (parseUrl) broken?'
sheet2 = parser2.parseString(parent2, href='http://example.org/a.css')
assert content(sheet2, 'a') == '"é"'  # parent decoded as latin-1
got2 = content(imported(sheet2), 'b')
if got2 != '"é"':
    problems.append(
        'parseString(latin-1 bytes, @charset "ISO_8859-1:1987"): imported sheet '
        'without encoding information must be decoded as latin-1 (referring sheet) '
        'as parseUrl does, got content %r (hrefFound=%r)'
        % (got2, [r.hrefFound for r in sheet2.cssRules if r.type == r.IMPORT_RULE])
    )

assert not problems, '\n'.join(problems)
print('ok')
