import sys
sys.path.insert(0, __import__('os').environ.get('VERIF_REPO', '/repo'))
import logging
import xml.dom
import cssutils

cssutils.log.setLevel(logging.FATAL)


def check(sheet, label, problems):
    "parent links of the rules reachable from `sheet`"
    ids = [id(r) for r in sheet.cssRules]
    if len(ids) != len(set(ids)):
        problems.append('%s: the same rule object is twice in sheet.cssRules' % label)
    for i, r in enumerate(sheet.cssRules):
        if r.parentRule is not None or r.parent is not None:
            problems.append(
                '%s: sheet.cssRules[%d] (%s) is a top level rule but names %r as parentRule'
                % (label, i, r.typeString, r.parentRule)
            )
        if r.parentStyleSheet is not sheet:
            problems.append(
                '%s: sheet.cssRules[%d] (%s) names %r as parentStyleSheet, not the sheet holding it'
                % (label, i, r.typeString, r.parentStyleSheet)
            )
        if r.type == r.MEDIA_RULE:
            for j, c in enumerate(r.cssRules):
                if c.parentRule is not r or c.parent is not r:
                    problems.append(
                        '%s: sheet.cssRules[%d].cssRules[%d] names %r as parentRule, not the @media rule holding it'
                        % (label, i, j, c.parentRule)
                    )


problems = []

# 1. insert a top level rule of the sheet into an @media rule of the same sheet
sheet = cssutils.parseString('a { color: red } @media print { b { left: 0 } }')
style, media = sheet.cssRules[0], sheet.cssRules[1]
try:
    media.insertRule(style, 0)
except xml.dom.DOMException:
    pass  # rejecting would be fine
check(sheet, 'media.insertRule(sheet.cssRules[0])', problems)

# 2. insert a rule nested in an @media rule into the sheet itself
sheet = cssutils.parseString('a { color: red } @media print { b { left: 0 } }')
media = sheet.cssRules[1]
try:
    sheet.insertRule(media.cssRules[0], 2)
except xml.dom.DOMException:
    pass
check(sheet, 'sheet.insertRule(media.cssRules[0])', problems)

# 3. ordered add of a rule which is part of the sheet already
sheet = cssutils.parseString('a { color: red } c { top: 0 }')
try:
    sheet.add(sheet.cssRules[0])
except xml.dom.DOMException:
    pass
check(sheet, 'sheet.add(sheet.cssRules[0])', problems)

# 4. the documented CSSRuleList form: rules of one sheet inserted into another
one = cssutils.parseString('a { color: red } c { top: 0 }')
two = cssutils.parseString('d { left: 0 }')
try:
    two.insertRule(one.cssRules, 0)
except xml.dom.DOMException:
    pass
check(one, 'two.insertRule(one.cssRules): sheet one', problems)
check(two, 'two.insertRule(one.cssRules): sheet two', problems)

assert not problems, '\n' + '\n'.join(problems)
print('ok')
