import sys
sys.path.insert(0, __import__('os').environ.get('VERIF_REPO', '/repo'))
import logging
import cssutils

cssutils.log.setLevel(logging.FATAL)

# replace the text of an @variables rule which is part of a sheet
sheet = cssutils.parseString('@variables { c: red } a { color: var(c) }')
rule = sheet.cssRules[0]
assert rule.type == rule.VARIABLES_RULE
old = rule.variables
assert old.parentRule is rule

rule.cssText = '@variables { d: blue }'
new = rule.variables
assert new is not old, 'the edit was accepted, a new declaration block is expected'
assert new.parentRule is rule, 'new block must name the rule'

# same through the attribute
old2 = rule.variables
rule.variables = 'e: 1px'
assert rule.variables is not old2

problems = []
if old.parentRule is not None:
    problems.append(
        'declaration block replaced through rule.cssText= still names the '
        '@variables rule as parentRule: %r' % old.parentRule
    )
if old2.parentRule is not None:
    problems.append(
        'declaration block replaced through rule.variables= still names the '
        '@variables rule as parentRule: %r' % old2.parentRule
    )
assert not problems, '; '.join(problems)
print('ok')
