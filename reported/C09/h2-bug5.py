import sys
sys.path.insert(0, __import__('os').environ.get('VERIF_REPO', '/repo'))
import logging
import xml.dom
import cssutils
from cssutils import css

cssutils.log.setLevel(logging.FATAL)
cssutils.ser.prefs.keepEmptyRules = True


def kinds(sheet):
    return [r.typeString for r in sheet.cssRules]


problems = []

# "@import\ " (escaped space: the keyword is the identifier "import ") is no
# @import rule but an unknown at-rule, which may stand anywhere in a sheet
cases = [
    ('add', '@import\\  "x.css";'),
    ('add', '@charset\\  "ascii";'),
    ('add', '@namespace\\  "u";'),
    ('add', '@import\\9  "x.css";'),
    ('obj', '@import\\  "x.css";'),
]
for how, text in cases:
    sheet = cssutils.parseString('a { color: red }')
    try:
        if how == 'add':
            sheet.add(text)
        else:
            sheet.insertRule(css.CSSUnknownRule(text), 1)
    except xml.dom.DOMException:
        continue  # a rejected edit is fine
    assert kinds(sheet) == ['STYLE_RULE', 'UNKNOWN_RULE'], kinds(sheet)
    errors = []

    class H(logging.Handler):
        def emit(self, record):
            errors.append(record.getMessage())

    h = H()
    cssutils.log._log.addHandler(h)
    cssutils.log.setLevel(logging.ERROR)
    cssutils.log.raiseExceptions = False
    try:
        again = cssutils.parseString(sheet.cssText)
    finally:
        cssutils.log.raiseExceptions = True
        cssutils.log.setLevel(logging.FATAL)
        cssutils.log._log.removeHandler(h)
    if kinds(again) != kinds(sheet):
        problems.append(
            '%s %r: sheet holds %r, is serialised as %r and reparsed as %r (%s)'
            % (how, text, kinds(sheet), sheet.cssText, kinds(again), '; '.join(errors)[:120])
        )

assert not problems, (
    'a rule of the edited sheet is lost to an ordering error on reparse:\n'
    + '\n'.join(problems)
)
print('ok')
