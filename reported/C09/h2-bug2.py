import sys
sys.path.insert(0, __import__('os').environ.get('VERIF_REPO', '/repo'))
import logging
import xml.dom
import cssutils
from cssutils import css

cssutils.log.setLevel(logging.FATAL)
cssutils.ser.prefs.keepEmptyRules = True


def kinds(sheet):
    return [r.typeString for r in sheet.cssRules]


problems = []

# control: the lower case spelling is rejected (repaired earlier)
sheet = cssutils.parseString('a { color: red }')
try:
    sheet.add('@top-left { content: "x" }')
except xml.dom.DOMException:
    pass
assert kinds(sheet) == ['STYLE_RULE'], kinds(sheet)

# 1. ordered add / insertRule of the same margin box rule in another spelling
for text in ('@TOP-LEFT { content: "x" }', '@Bottom-Center { content: "x" }'):
    for how in ('add', 'insertRule'):
        sheet = cssutils.parseString('a { color: red }')
        try:
            if how == 'add':
                sheet.add(text)
            else:
                sheet.insertRule(text, 1)
        except xml.dom.DOMException:
            pass  # a rejected edit is fine
        before = kinds(sheet)
        after = kinds(cssutils.parseString(sheet.cssText))
        if before != after:
            problems.append(
                'sheet.%s(%r): sheet holds %r, serialised as %r, reparsed as %r'
                % (how, text, before, sheet.cssText, after)
            )

# 2. the same with a rule object
sheet = cssutils.parseString('a { color: red }')
try:
    sheet.add(css.CSSUnknownRule('@top-left { content: "x" }'))
except xml.dom.DOMException:
    pass
before = kinds(sheet)
after = kinds(cssutils.parseString(sheet.cssText))
if before != after:
    problems.append(
        'sheet.add(CSSUnknownRule("@top-left {...}")): sheet holds %r, reparsed as %r'
        % (before, after)
    )

assert not problems, (
    'a margin box rule was taken into the rule list of the sheet and is lost '
    'on reparse:\n' + '\n'.join(problems)
)
print('ok')
