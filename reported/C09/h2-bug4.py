import sys
sys.path.insert(0, __import__('os').environ.get('VERIF_REPO', '/repo'))
import logging
import cssutils

cssutils.log.setLevel(logging.FATAL)

problems = []

# CSSStyleSheet.cssRules (setter) installs   cssRules.__delitem__ = self.deleteRule
# next to   cssRules.append = self.insertRule : the rule list is meant to be an
# edit surface of the DOM. append works that way:
sheet = cssutils.parseString('a { color: red }')
sheet.cssRules.append('b { left: 0 }')
assert sheet.cssRules[1].parentStyleSheet is sheet

# delete through the rule list of the sheet
sheet = cssutils.parseString(
    '@namespace p "u"; p|a { color: red } @media print { b { left: 0 } } @page { @top-left { content: "x" } }'
)
ns = sheet.cssRules[0]
try:
    del sheet.cssRules[0]
except Exception:
    pass  # deleteRule would refuse: the namespace is in use
if all(r is not ns for r in sheet.cssRules):
    if ns.parentStyleSheet is not None:
        problems.append(
            'del sheet.cssRules[0]: the removed @namespace rule still names the sheet as parentStyleSheet'
        )

# delete through the rule list of an @media rule
media = [r for r in sheet.cssRules if r.type == r.MEDIA_RULE][0]
child = media.cssRules[0]
del media.cssRules[0]
if all(r is not child for r in media.cssRules) and child.parentRule is not None:
    problems.append(
        'del media.cssRules[0]: the removed style rule still names the @media rule as parentRule'
    )

# delete through the rule list of an @page rule
page = [r for r in sheet.cssRules if r.type == r.PAGE_RULE][0]
margin = page.cssRules[0]
del page.cssRules[0]
if all(r is not margin for r in page.cssRules) and margin.parentRule is not None:
    problems.append(
        'del page.cssRules[0]: the removed margin rule still names the @page rule as parentRule'
    )

assert not problems, '\n' + '\n'.join(problems)
print('ok')
