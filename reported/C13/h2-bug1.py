"""C13: 'overflow' is a keyword list in CSS 2.1 (visible | hidden | scroll | auto | inherit;
CSS3 box: one or two of these keywords separated by white space).  Two keywords glued
together into ONE identifier ('autoauto', 'visiblehidden', 'scrollinherit') are
reported valid."""
import sys
sys.path.insert(0, __import__('os').environ.get('VERIF_REPO', '/repo'))
import logging
import cssutils
from cssutils.css import Property

cssutils.log.setLevel(logging.CRITICAL)

# sanity: the real spellings
assert Property('overflow', 'auto').valid is True
assert Property('overflow', 'auto hidden').valid is True
assert Property('overflow', 'foo').valid is False

bad = []
for value in ('autoauto', 'visiblehidden', 'scrollinherit', 'HiddenScroll'):
    sheet = cssutils.parseString('a { overflow: %s }' % value)
    prop = sheet.cssRules[0].style.getProperties(all=True)[0]
    # one single IDENT token, stored and written unchanged
    assert prop.value == value, prop.value
    if prop.valid or sheet.valid or Property('overflow', value).valid:
        bad.append((value, prop.valid, sheet.valid))

assert not bad, (
    "'overflow' accepts identifiers that are no keyword of its grammar "
    "(value, Property.valid, sheet.valid): %r" % bad
)
print('ok')
