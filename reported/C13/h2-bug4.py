r"""C13: the verdict must be the same before and after a serialise/reparse round trip.
A single quoted string holding an escaped double quote ('\"' - a legal CSS string whose
content is one double quote) is written as "\\"" : the backslash that was kept in the
stored value is followed by a newly escaped quote, i.e. an escaped backslash and then
the END of the string.  quotes: '\"' '\"' is valid, its own serialisation is invalid;
for content / font-family the whole declaration (and everything after it) is lost."""
import sys
sys.path.insert(0, __import__('os').environ.get('VERIF_REPO', '/repo'))
import logging
import cssutils

cssutils.log.setLevel(logging.CRITICAL)

def state(css):
    sheet = cssutils.parseString(css)
    props = []
    for rule in sheet.cssRules:
        props += [(p.name, p.value, p.valid) for p in rule.style.getProperties(all=True)]
    return props, sheet.valid, sheet.cssText

problems = []
for css in (
    r'''a { quotes: '\"' '\"' }''',
    r'''a { content: '\"' }''',
    r'''a { font-family: 'a\"b'; color: red }''',
    r'''a { background-image: url(\") }''',
):
    props1, valid1, text1 = state(css)
    assert props1 and all(v for _, _, v in props1) and valid1, (css, props1)  # all valid
    props2, valid2, text2 = state(text1)
    if [(n, v) for n, _, v in props1] != [(n, v) for n, _, v in props2] or valid1 != valid2:
        problems.append((css, 'before %r' % props1, 'written %r' % text1, 'after %r sheet.valid=%r' % (props2, valid2)))

assert not problems, 'verdicts differ after a serialise/reparse round trip:\n  ' + '\n  '.join(map(repr, problems))
print('ok')
