r"""C13: background-image / list-style-image / cue-before / cue-after have the CSS 2.1
grammar '<uri> | none | inherit'.  The URI token of CSS 2.1 is
    url\({w}{string}{w}\) | url\({w}([!#$%&*-~]|{nonascii}|{escape})*{w}\)
so 'url()' and 'url("")' ARE URIs (empty URL), while 'url(a b)' is NOT one.
The library says the opposite in both cases."""
import sys
sys.path.insert(0, __import__('os').environ.get('VERIF_REPO', '/repo'))
import logging
import cssutils
from cssutils.css import Property

cssutils.log.setLevel(logging.CRITICAL)

def verdict(name, value):
    sheet = cssutils.parseString('a { %s: %s }' % (name, value))
    props = sheet.cssRules[0].style.getProperties(all=True)
    assert len(props) == 1, (name, value, sheet.cssText)
    assert props[0].valid == Property(name, value).valid
    return props[0].valid

problems = []
for name in ('background-image', 'list-style-image', 'cue-before', 'cue-after'):
    # sanity
    assert verdict(name, 'url(a)') is True
    assert verdict(name, 'url("a")') is True
    assert verdict(name, '1px') is False
    # every spelling of the empty URI is a <uri>
    for value in ('url()', 'url( )', 'url("")', "url('')"):
        if verdict(name, value) is not True:
            problems.append((name, value, 'reported invalid, is a <uri>'))
    # not a URI token at all (white space inside an unquoted URL)
    for value in ('url(a b)', 'url("a" b)'):
        if verdict(name, value) is not False:
            problems.append((name, value, 'reported valid, is no <uri>'))

assert not problems, 'verdict disagrees with the <uri> grammar:\n  ' + '\n  '.join(map(repr, problems))
print('ok')
