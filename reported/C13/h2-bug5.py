"""C13: unknown property names are never valid.
CSS property names are ASCII case-insensitive.  'bacKground' (U+212A KELVIN SIGN
instead of 'k') is a different, unknown property name - but the name is normalised with
the Unicode aware str.lower(), which maps KELVIN SIGN to 'k': the declaration becomes
'background', is reported valid and is even written as 'background: red'."""
import sys
sys.path.insert(0, __import__('os').environ.get('VERIF_REPO', '/repo'))
import logging
import cssutils
from cssutils.css import Property, CSSStyleDeclaration

cssutils.log.setLevel(logging.CRITICAL)

KELVIN = 'K'
assert KELVIN not in 'abcdefghijklmnopqrstuvwxyz' and not KELVIN.isascii()

# sanity: other unknown names
assert Property('bacxground', 'red').valid is False
assert cssutils.parseString('a { bacķground: red }').valid is False  # k with cedilla

problems = []
for name, value in (('bac%sground' % KELVIN, 'red'),
                    ('spea%s' % KELVIN, 'none'),
                    ('PAGE-BREA%s-AFTER' % KELVIN, 'always'),
                    ('bac%sground-color' % KELVIN, '#fff')):
    sheet = cssutils.parseString('a { %s: %s }' % (name, value))
    prop = sheet.cssRules[0].style.getProperties(all=True)[0]
    p2 = Property(name, value)
    style = CSSStyleDeclaration()
    style.setProperty(name, value)
    if prop.valid or sheet.valid or p2.valid or style.valid:
        problems.append((ascii(name), 'parsed valid=%r' % prop.valid, 'sheet.valid=%r' % sheet.valid,
                         'Property().valid=%r' % p2.valid, 'setProperty valid=%r' % style.valid,
                         'stored name %s' % ascii(prop.name), 'written %s' % ascii(sheet.cssText)))

assert not problems, ('a property name that is NOT a known name (non ASCII letter) is reported valid:\n  '
                      + '\n  '.join(map(repr, problems)))
print('ok')
