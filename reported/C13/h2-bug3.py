r"""C13: the verdict must be the same before and after a serialise/reparse round trip.
An identifier / dimension whose spelling uses a CSS escape for a white space
character - the wide spread IE hack 'color: red\9', 'width: 100px\9', or 'red\20 ' -
is ONE token; it is (correctly) reported invalid, but it is written with the decoded
character raw ('red<TAB>'), so the re-parsed sheet holds 'color: red' which is valid:
the verdict of declaration, rule and sheet flips."""
import sys
sys.path.insert(0, __import__('os').environ.get('VERIF_REPO', '/repo'))
import logging
import cssutils

cssutils.log.setLevel(logging.CRITICAL)

def verdicts(css):
    sheet = cssutils.parseString(css)
    props = sheet.cssRules[0].style.getProperties(all=True)
    assert len(props) == 1
    return props[0].valid, sheet.valid, props[0].value, sheet.cssText

flips = []
for css in (
    r'a { color: red\9 }',
    r'a { width: 100px\9 }',
    r'a { color: red\20 }',
    r'a { display: block\a }',
    r'a { page: x\3b y }',          # escaped ';' : the re-parsed value is cut to 'x'
):
    v1, s1, value1, text1 = verdicts(css)
    v2, s2, value2, text2 = verdicts(text1)
    if (v1, s1) != (v2, s2):
        flips.append((css, 'before: valid=%r value=%r' % (v1, value1),
                      'written: %r' % text1, 'after: valid=%r value=%r' % (v2, value2)))

assert not flips, 'verdict changes over a serialise/reparse round trip:\n  ' + '\n  '.join(map(repr, flips))
print('ok')
