import sys
sys.path.insert(0, __import__('os').environ.get('VERIF_REPO', '/repo'))
import io
from email.message import Message
import encutils


class Res:
    def __init__(self, ct):
        self.m = Message()
        self.m['Content-Type'] = ct

    def info(self):
        return self.m


# well-formed XML documents WITHOUT an XML declaration (and without BOM):
# they start with another processing instruction whose target begins with "xml"
docs = [
    '''<?xml-stylesheet type="text/css" href="s.css" title="encoding='koi8-r'"?>\n<a/>''',
    '''<?xml-stylesheet type="text/xsl" href="t.xsl" encoding="koi8-r"?>\n<a/>''',
    '''<?xml-model href="s.rnc" encoding="koi8-r"?>\n<a/>''',
]
problems = []
for doc in docs:
    for d in (doc, doc.encode('latin-1'), io.StringIO(doc), io.BytesIO(doc.encode('latin-1'))):
        got = encutils.detectXMLEncoding(d)
        if got != 'utf-8':
            problems.append('detectXMLEncoding(%r) -> %r, expected utf-8 (no BOM, no XML declaration)' % (d, got))
    info = encutils.getEncodingInfo(Res('application/xml'), doc)
    if info.encoding != 'utf-8':
        problems.append('application/xml: encoding %r, expected utf-8' % info.encoding)
    info = encutils.getEncodingInfo(Res('application/xml; charset=utf-8'), doc)
    if info.mismatch:
        problems.append('application/xml; charset=utf-8: mismatch True (xml_encoding %r), expected False' % info.xml_encoding)
    info = encutils.getEncodingInfo(Res('application/xml; charset=koi8-r'), doc)
    if not info.mismatch:
        problems.append('application/xml; charset=koi8-r: mismatch False (xml_encoding %r), expected True (XML default utf-8)' % info.xml_encoding)

assert not problems, 'a PI that is not the XML declaration is taken for it:\n' + '\n'.join(problems)
print('ok')
