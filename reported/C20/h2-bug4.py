import sys
sys.path.insert(0, __import__('os').environ.get('VERIF_REPO', '/repo'))
from email.message import Message
import encutils


class Res:
    def __init__(self, ct):
        self.m = Message()
        self.m['Content-Type'] = ct

    def info(self):
        return self.m


doc = b'<?xml version="1.0" encoding="koi8-r"?><a><meta http-equiv="Content-Type" content="text/html; charset=big5"/></a>'
problems = []

# "other" media types (not application/xml, not application/*+xml): nothing is sniffed,
# without transport charset there is no encoding (like application/octet-stream)
ref = encutils.getEncodingInfo(Res('application/octet-stream'), doc)
assert (ref.encoding, ref.mismatch) == (None, False)
for mt in ('application/foo+xmlx', 'application/x+xml-compressed', 'application/a+xml+zip'):
    info = encutils.getEncodingInfo(Res(mt), doc)
    if info.encoding is not None:
        problems.append('%s: encoding %r, expected None (not an XML media type)' % (mt, info.encoding))
    info = encutils.getEncodingInfo(Res(mt + '; charset=utf-8'), doc)
    if info.mismatch:
        problems.append('%s; charset=utf-8: mismatch True, expected False (nothing to sniff)' % mt)
    if encutils.encodingByMediaType(mt) is not None:
        problems.append('encodingByMediaType(%r) = %r, expected None' % (mt, encutils.encodingByMediaType(mt)))

# other text/* types: default iso-8859-1 (like text/plain), not the text/xml family (ascii)
ref = encutils.getEncodingInfo(Res('text/plain'), doc)
assert ref.encoding == 'iso-8859-1'
for mt in ('text/foo+xmlx', 'text/x+xml-compressed'):
    info = encutils.getEncodingInfo(Res(mt), doc)
    if info.encoding != 'iso-8859-1':
        problems.append('%s: encoding %r, expected iso-8859-1 (other text/*)' % (mt, info.encoding))

assert not problems, 'media types that merely START like */*+xml are classified as XML: ' + '; '.join(problems)
print('ok')
