import sys
sys.path.insert(0, __import__('os').environ.get('VERIF_REPO', '/repo'))
from email.message import Message
import encutils


class Res:
    def __init__(self, ct):
        self.m = Message()
        self.m['Content-Type'] = ct

    def info(self):
        return self.m


# an RFC 2231 style parameter name (charset*) in the meta content
doc = b'''<html><head><meta http-equiv="Content-Type" content="text/html; charset*=koi8-r"></head><body>text</body></html>'''

problems = []
try:
    r = encutils.getMetaInfo(doc)
    if not (isinstance(r, tuple) and len(r) == 2):
        problems.append('getMetaInfo returned %r' % (r,))
except Exception as e:
    problems.append('getMetaInfo raised %r' % e)

# the transport charset decides here, the meta sniffing must not abort the report
for ct, exp in (('text/html; charset=utf-8', 'utf-8'), ('text/plain', 'iso-8859-1')):
    try:
        info = encutils.getEncodingInfo(Res(ct), doc)
        if info.encoding != exp:
            problems.append('%s: encoding %r, expected %r' % (ct, info.encoding, exp))
    except Exception as e:
        problems.append('getEncodingInfo(%s) raised %r' % (ct, e))

# same with the extended value syntax
doc2 = '''<meta http-equiv="Content-Type" content="text/html; charset*=us-ascii'en'koi8-r">'''
try:
    r = encutils.getMetaInfo(doc2)
    if r[1] is not None and r[1] != r[1].lower():
        problems.append('not lower case: %r' % (r,))
except Exception as e:
    problems.append('getMetaInfo(doc2) raised %r' % e)

assert not problems, 'meta sniffing aborts the report: ' + '; '.join(problems)
print('ok')
