import sys
sys.path.insert(0, __import__('os').environ.get('VERIF_REPO', '/repo'))
import encutils

# no transport information at all (media type absent, charset absent):
# "If no media type is given the XML encoding pseudo attribute is used if present."
reference = '<?xml version="1.0" encoding="koi8-r"?><a/>'
assert encutils.getEncodingInfo(text=reference).encoding == 'koi8-r'  # baseline, works

variants = [
    '<?xml version = "1.0" encoding="koi8-r"?><a/>',    # Eq ::= S? '=' S?
    '<?xml  version="1.0" encoding="koi8-r"?><a/>',     # S ::= (#x20 | #x9 | #xD | #xA)+
    '<?xml\tversion="1.0" encoding="koi8-r"?><a/>',
    '<?xml\nversion="1.0"\nencoding="koi8-r"?><a/>',
    '<?xml encoding="koi8-r"?><a/>',                     # text declaration of an external entity
]
problems = []
for doc in variants:
    for d in (doc, doc.encode('latin-1')):
        # the XML sniffer itself finds the declared encoding
        assert encutils.detectXMLEncoding(d) == 'koi8-r', d
        info = encutils.getEncodingInfo(text=d)
        if info.encoding != 'koi8-r':
            problems.append('%r -> encoding %r xml_encoding %r' % (d, info.encoding, info.xml_encoding))

assert not problems, (
    'media type absent, XML declaration present: declared encoding koi8-r not reported: '
    + '; '.join(problems)
)
print('ok')
