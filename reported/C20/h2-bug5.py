import sys
sys.path.insert(0, __import__('os').environ.get('VERIF_REPO', '/repo'))
import codecs
from email.message import Message
import encutils


class Res:
    def __init__(self, ct):
        self.m = Message()
        self.m['Content-Type'] = ct

    def info(self):
        return self.m


problems = []
# (document, transport charsets that name exactly the encoding the BOM stands for)
cases = [
    (codecs.BOM_UTF16_LE + '<a/>'.encode('utf-16-le'), ['utf-16le', 'UTF-16LE', 'utf-16']),
    (codecs.BOM_UTF16_BE + '<a/>'.encode('utf-16-be'), ['utf-16be', 'utf-16']),
    (codecs.BOM_UTF32_LE + '<a/>'.encode('utf-32-le'), ['utf-32le', 'utf-32']),
    (codecs.BOM_UTF32_BE + '<a/>'.encode('utf-32-be'), ['utf-32be', 'utf-32']),
]
# baseline: for the UTF-8 BOM the agreeing transport charset gives no mismatch
info = encutils.getEncodingInfo(Res('application/xml; charset=utf-8'), codecs.BOM_UTF8 + b'<a/>')
assert (info.encoding, info.mismatch) == ('utf-8', False)

for doc, charsets in cases:
    for cs in charsets:
        info = encutils.getEncodingInfo(Res('application/xml; charset=%s' % cs), doc)
        if info.mismatch:
            problems.append(
                'charset=%s + BOM %r: mismatch True (http %r, xml %r)'
                % (cs, doc[:4], info.http_encoding, info.xml_encoding)
            )
        # same for XHTML served as text/html
        info = encutils.getEncodingInfo(Res('text/html; charset=%s' % cs), doc)
        if info.mismatch:
            problems.append('text/html; charset=%s + BOM %r: mismatch True' % (cs, doc[:4]))

assert not problems, (
    'transport charset and BOM name the same encoding but a mismatch is reported: '
    + '; '.join(problems)
)
print('ok')
