import sys
sys.path.insert(0, __import__('os').environ.get('VERIF_REPO', '/repo'))
import logging
import cssutils
from cssutils.stylesheets import MediaList

cssutils.log.setLevel(logging.FATAL)
cssutils.log.raiseExceptions = False

failures = []
# legal identifiers written with hexadecimal escapes (ident value / feature name /
# unit of a length); the same identifiers written with a simple escape
# ('a\)b', 'a\,b', 'a\ b') pass through unchanged
for text in (
    r'screen and (scan: a\29 b) and (color), print',    # ident value  a)b
    r'screen and (scan: a\2c b) and (color), print',    # ident value  a,b
    r'screen and (scan: a\20 b) and (color), print',    # ident value  "a b"
    r'screen and (\31 st: 1) and (color), print',       # feature name 1st
    r'screen and (min-width: 0\0) and (color), print',  # the well known IE "\0" hack
):
    ml = MediaList(text)
    if not ml.wellformed:
        continue  # rejecting would be fine for this property
    out = ml.mediaText
    again = MediaList(out)
    if not again.wellformed or again.mediaText != out or again.length != ml.length:
        failures.append(
            'MediaList(%r) is accepted (length %d), mediaText is %r, which reparses '
            'to wellformed=%s length=%d %r'
            % (text, ml.length, out, again.wellformed, again.length, again.mediaText)
        )

css = r'@media screen and (min-width:0\0) { a { color: red } }'
sheet = cssutils.parseString(css)
out = sheet.cssText.decode()
again = cssutils.parseString(out)
before = [r.media.mediaText for r in sheet.cssRules if r.type == r.MEDIA_RULE]
after = [r.media.mediaText for r in again.cssRules if r.type == r.MEDIA_RULE]
if before and before != after:
    failures.append(
        '%r is kept with media %r, the serialised sheet %r reparses to media %r'
        % (css, before, out, after)
    )

assert not failures, (
    'media lists with hex-escaped identifiers are accepted but their text does '
    'not reparse to an equal list:\n  ' + '\n  '.join(failures)
)
print('ok')
