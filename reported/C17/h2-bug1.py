import sys
sys.path.insert(0, __import__('os').environ.get('VERIF_REPO', '/repo'))
import logging
import cssutils
from cssutils.stylesheets import MediaList

cssutils.log.setLevel(logging.FATAL)
# the mode every cssutils.parseString()/parseFile() call works in
cssutils.log.raiseExceptions = False

failures = []

# 1. stand-alone list: one query has a malformed colour value
for bad in ('rgb(1,2)', 'rgb()', 'hsl(1)', 'rgb(1,,2)'):
    text = 'screen and (color: %s) and (min-width: 10px), print' % bad
    ml = MediaList(text)
    if ml.wellformed:
        out = ml.mediaText
        again = MediaList(out)
        if not again.wellformed or again.mediaText != out:
            failures.append(
                'MediaList(%r) is accepted (wellformed=True, length=%d) but its '
                'mediaText %r does not reparse (wellformed=%s)'
                % (text, ml.length, out, again.wellformed)
            )

# 2. the same list owned by an @media and an @import rule, read from a sheet
for css in (
    '@media screen and (color: rgb(1,2)), print { a { color: red } }',
    '@import "x.css" screen and (color: rgb(1,2)), print;',
):
    sheet = cssutils.parseString(css)
    if sheet.cssRules.length:
        out = sheet.cssText.decode()
        again = cssutils.parseString(out)
        before = [r.media.mediaText for r in sheet.cssRules]
        after = [r.media.mediaText for r in again.cssRules]
        if before != after:
            failures.append(
                '%r is kept as a rule with media %r and serialised as %r, which '
                'reparses to rules with media %r' % (css, before, out, after)
            )

assert not failures, (
    'a query with a malformed colour value does not invalidate the list and is '
    'serialised as unparsable text:\n  ' + '\n  '.join(failures)
)
print('ok')
