"""C06 - keepEmptyRules=True keeps empty style rules and empty @media rules
only; empty @page, margin (@top-left ...), @font-face and @variables rules of
the DOM are dropped all the same."""
import logging
import sys

sys.path.insert(0, __import__('os').environ.get('VERIF_REPO', '/repo'))
import cssutils  # noqa: E402

cssutils.log.setLevel(logging.FATAL)
prefs = cssutils.ser.prefs

CASES = [
    # source, preferences, what the output must contain
    ('a {}', {}, 'a'),
    ('@media print {}', {}, '@media'),
    ('@page {}', {}, '@page'),
    ('@page :first {}', {}, '@page'),
    ('@font-face {}', {}, '@font-face'),
    ('@page { margin: 0; @top-left {} }', {}, '@top-left'),
    ('@variables {} a { left: var(x) }', {'resolveVariables': False}, '@variables'),
    # rules that get empty because another preference drops their content
    ('a { /*c*/ }', {'keepComments': False}, 'a'),
    ('@page { /*c*/ }', {'keepComments': False}, '@page'),
    ('@font-face { /*c*/ }', {'keepComments': False}, '@font-face'),
]

failures = []
for css, extra, needle in CASES:
    prefs.useDefaults()
    sheet = cssutils.parseString(css)
    # the (empty) rule is part of the DOM
    assert len(sheet.cssRules) >= 1 and all(r.wellformed for r in sheet.cssRules), css
    if needle == '@top-left':
        assert len(sheet.cssRules[0].cssRules) == 1, css
    prefs.keepEmptyRules = True
    for k, v in extra.items():
        setattr(prefs, k, v)
    out = sheet.cssText.decode()
    prefs.useDefaults()
    nrules = len(cssutils.parseString(out).cssRules)
    if needle not in out:
        failures.append(
            'keepEmptyRules=True %r: %r is serialised as %r (reparse has %d rule(s), '
            'the DOM has %d)' % (extra, css, out, nrules, len(sheet.cssRules))
        )

assert not failures, '\n'.join(failures)
print('ok')
