"""C06 - resolveVariables=True (the default) drops the @variables rules but
leaves a resolvable reference unresolved when a variable refers to a variable
that is declared later."""
import logging
import sys

sys.path.insert(0, __import__('os').environ.get('VERIF_REPO', '/repo'))
import cssutils  # noqa: E402

cssutils.log.setLevel(logging.FATAL)
prefs = cssutils.ser.prefs
prefs.useDefaults()


def outputs(css):
    sheet = cssutils.parseString(css)
    prefs.useDefaults()
    resolved = sheet.cssText.decode()
    prefs.resolveVariables = False
    kept = sheet.cssText.decode()
    prefs.useDefaults()
    return resolved, kept


# reference to a variable declared earlier: fine
resolved, kept = outputs('@variables { b: red; a: var(b) } x { color: var(a) }')
assert resolved == 'x {\n    color: red\n    }', resolved

failures = []
for css in (
    '@variables { a: var(b); b: red } x { color: var(a) }',
    '@variables { a: var(b) } @variables { b: red } x { color: var(a) }',
):
    resolved, kept = outputs(css)
    # nothing is lost as long as the variables are not resolved
    assert 'b: red' in kept and 'a: var(b)' in kept and 'var(a)' in kept, kept
    reparsed = cssutils.parseString(resolved)
    if 'red' not in resolved:
        failures.append(
            '%r: with resolveVariables=True all @variables rules are removed but '
            'the output still refers to one of the variables: %r (reparse: %d '
            'rule(s), color = %r; expected "color: red")'
            % (
                css,
                resolved,
                len(reparsed.cssRules),
                reparsed.cssRules[0].style.getPropertyValue('color'),
            )
        )

assert not failures, '\n'.join(failures)
print('ok')
