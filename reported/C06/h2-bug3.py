"""C06 - a DOM edit (C03: CSSStyleDeclaration.setProperty / style['x'] = ...
on a property that exists already) stores the new value as *serialised with the
current preferences*.  With the default resolveVariables=True the reference
var(c) is replaced by its momentary value in the DOM, so resolveVariables=False
cannot print it any more; with keepComments=False the comments of the new value
are lost for good ("restoring the defaults restores the default output")."""
import logging
import sys

sys.path.insert(0, __import__('os').environ.get('VERIF_REPO', '/repo'))
import cssutils  # noqa: E402

cssutils.log.setLevel(logging.FATAL)
prefs = cssutils.ser.prefs
failures = []

# --- 1. resolveVariables -----------------------------------------------------
prefs.useDefaults()
sheet = cssutils.parseString('@variables { c: red } a { color: blue } b { left: 0 }')
a, b = sheet.cssRules[1], sheet.cssRules[2]
a.style.setProperty('color', 'var(c)')  # replaces color: blue
b.style.setProperty('color', 'var(c)')  # new property
prefs.resolveVariables = False
out = sheet.cssText.decode()
prefs.useDefaults()
assert 'b {\n    left: 0;\n    color: var(c)\n    }' in out, out
if 'a {\n    color: var(c)\n    }' not in out:
    failures.append(
        'resolveVariables=False: a.style.setProperty("color", "var(c)") is '
        'written as a resolved value (the same call on rule b, where the '
        'property is new, keeps var(c)): %r' % out
    )

# --- 2. an edit made while keepComments is off survives useDefaults() --------
prefs.useDefaults()
sheet1 = cssutils.parseString('a { color: blue }')
sheet1.cssRules[0].style['color'] = 'red /*why*/'
default_output = sheet1.cssText

sheet2 = cssutils.parseString('a { color: blue }')
prefs.keepComments = False
sheet2.cssRules[0].style['color'] = 'red /*why*/'
prefs.useDefaults()
if sheet2.cssText != default_output:
    failures.append(
        'the same edit made while keepComments=False: after useDefaults() the '
        'output is %r instead of the default output %r'
        % (sheet2.cssText, default_output)
    )

assert not failures, '\n'.join(failures)
print('ok')
