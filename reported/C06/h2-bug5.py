"""C06 - defaultAtKeyword=False ("the literal @keyword from src CSS" is used)
works for @import, @namespace and margin rules only.  @media, @page,
@font-face, @variables and unknown at-rules are written with the normalised
keyword all the same (for unknown rules the literal keyword is even stored in
the DOM, the serializer just does not look at it)."""
import logging
import sys

sys.path.insert(0, __import__('os').environ.get('VERIF_REPO', '/repo'))
import cssutils  # noqa: E402

cssutils.log.setLevel(logging.FATAL)
prefs = cssutils.ser.prefs

CASES = [
    # (source, literal keyword, extra preferences)
    ('@IMPORT "a.css";', '@IMPORT', {}),
    ('@NAMESPACE p "u"; p|a { left: 0 }', '@NAMESPACE', {}),
    ('@page { margin: 0; @Top-Left { left: 0 } }', '@Top-Left', {}),
    ('@MEDIA print { a { left: 0 } }', '@MEDIA', {}),
    ('@m\\65 dia print { a { left: 0 } }', '@m\\65 dia', {}),
    ('@PAGE :first { margin: 0 }', '@PAGE', {}),
    ('@Font-Face { font-family: x }', '@Font-Face', {}),
    ('@VARIABLES { c: red } a { color: var(c) }', '@VARIABLES', {'resolveVariables': False}),
    ('@FOO bar;', '@FOO', {}),
    ('@f\\oo { a { left: 0 } }', '@f\\oo', {}),
    ('a { @BAR baz; left: 0 }', '@BAR', {}),
]

failures = []
for css, literal, extra in CASES:
    prefs.useDefaults()
    sheet = cssutils.parseString(css)
    for k, v in extra.items():
        setattr(prefs, k, v)
    normalised = sheet.cssText.decode()
    prefs.defaultAtKeyword = False
    out = sheet.cssText.decode()
    prefs.useDefaults()
    assert out, css
    # with the default the keyword is written normalised
    assert literal not in normalised, (css, normalised)
    if literal not in out:
        failures.append(
            'defaultAtKeyword=False: %r is serialised as %r - the literal keyword %s '
            'is not used (output identical to defaultAtKeyword=True: %s)'
            % (css, out, literal, out == normalised)
        )

assert not failures, '\n'.join(failures)
print('ok')
