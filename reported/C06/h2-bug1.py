"""C06 - resolveVariables x minimizeColorHash / variable edits.

The values that resolveVariables=True writes in place of var(NAME) do not come
from the @variables rules of the DOM but from CSSStyleSheet.variables, a copy
that CSSStyleSheet._updateVariables() makes *as serialized text* (with the
preferences that happen to be active at that moment) whenever an @variables or
@import rule is inserted or removed - and only then.
"""
import logging
import sys

sys.path.insert(0, __import__('os').environ.get('VERIF_REPO', '/repo'))
import cssutils  # noqa: E402

cssutils.log.setLevel(logging.FATAL)
prefs = cssutils.ser.prefs
failures = []

# --- 1. hash shortening switched off is ignored for resolved variables ------
prefs.useDefaults()
sheet = cssutils.parseString('@variables { c: #aabbcc } a { color: var(c); left: #ddeeff }')
prefs.minimizeColorHash = False
out = sheet.cssText.decode()
prefs.resolveVariables = False
unresolved = sheet.cssText.decode()
prefs.useDefaults()
# the DOM holds #aabbcc (and says so as soon as the variables are not resolved)
assert 'c: #aabbcc' in unresolved, unresolved
assert 'left: #ddeeff' in out, out
if 'color: #aabbcc' not in out:
    failures.append(
        'minimizeColorHash=False (resolveVariables=True): the value of var(c) is '
        'written shortened although hash shortening is switched off: %r '
        '(the variable is #aabbcc: %r)' % (out, unresolved)
    )

# --- 2. the resolved value is not the value the DOM holds --------------------
prefs.useDefaults()
sheet = cssutils.parseString('@variables { c: red } x { color: var(c) }')
sheet.cssRules[0].variables.setVariable('c', 'blue')
resolved = sheet.cssText.decode()
prefs.resolveVariables = False
unresolved = sheet.cssText.decode()
prefs.useDefaults()
assert 'c: blue' in unresolved, unresolved
if 'color: blue' not in resolved:
    failures.append(
        'after variables.setVariable("c", "blue") resolveVariables=True writes %r '
        'while resolveVariables=False writes %r: the two outputs describe '
        'different sheets' % (resolved, unresolved)
    )

assert not failures, '\n'.join(failures)
print('ok')
