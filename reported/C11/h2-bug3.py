"""C11: sheet.insertRule(CSSRuleList) - "all rules or none" - is refused at a
later rule, but the roll-back only deletes the rules inserted so far:
an @namespace rule which was superseded (same URI, other prefix) by a rule of
the list stays deleted; a rule of the list which was not inserted at all (a
duplicate @namespace) makes the roll-back itself fail half way."""
import sys

sys.path.insert(0, __import__('os').environ.get('VERIF_REPO', '/repo'))
import logging
import xml.dom

import cssutils
from cssutils.css import CSSImportRule, CSSNamespaceRule, CSSRuleList, MarginRule

cssutils.log.setLevel(logging.FATAL)
cssutils.log.raiseExceptions = True


def rulelist(*rules):
    rl = CSSRuleList()
    for r in rules:
        rl.insert(len(rl), r)
    return rl


def state(sheet):
    return (
        sheet.cssText,
        [r.cssText for r in sheet.cssRules],
        sorted(sheet.namespaces.items()),
        [
            r.selectorList.selectorText
            for r in sheet.cssRules
            if r.type == r.STYLE_RULE
        ],
    )


CASES = [
    # (sheet, rules to insert at index 1, description)
    (
        '@namespace p "a"; p|x { left: 0 }',
        lambda: rulelist(CSSNamespaceRule('a', 'p2'), MarginRule('@top-left', 'left: 0')),
        '[@namespace p2 "a", @top-left {...}] (margin rule refused)',
    ),
    (
        '@namespace p "a"; x { left: 0 }',
        lambda: rulelist(CSSNamespaceRule('a', 'p2'), MarginRule('@top-left', 'left: 0')),
        '[@namespace p2 "a", @top-left {...}] (margin rule refused, p not in use)',
    ),
    (
        '@namespace p "a"; x { left: 0 }',
        lambda: rulelist(
            CSSNamespaceRule('nn', 'n'), CSSNamespaceRule('a', 'p'), CSSImportRule('y.css')
        ),
        '[@namespace n "nn", @namespace p "a", @import] (@import refused)',
    ),
]
failures = []
for text, mk, desc in CASES:
    sheet = cssutils.parseString(text)
    before = state(sheet)
    raised = None
    try:
        sheet.insertRule(mk(), 1)
    except xml.dom.DOMException as e:
        raised = e
    assert raised is not None, 'expected the rule list to be refused: ' + desc
    after = state(sheet)
    if before != after:
        failures.append(
            'sheet %r: insertRule(%s, 1) was rejected with %s (%s) but the sheet '
            'changed:\n  before: %r\n  after:  %r'
            % (text, desc, type(raised).__name__, raised, before, after)
        )
assert not failures, '\n'.join(failures)
print('ok')
