"""C11: an URIValue created read-only rejects .cssText and .value (as every
Value does since the repair) but not .uri: the assignment is carried out and
the value serialises differently."""
import sys

sys.path.insert(0, __import__('os').environ.get('VERIF_REPO', '/repo'))
import logging
import xml.dom

import cssutils
from cssutils.css.value import URIValue

cssutils.log.setLevel(logging.FATAL)
cssutils.log.raiseExceptions = True

v = URIValue('url(a.png)', readonly=True)

# the other mutators are rejected and change nothing
for attr, new in (('cssText', 'url(b.png)'), ('value', 'b.png')):
    try:
        setattr(v, attr, new)
    except xml.dom.NoModificationAllowedErr:
        pass
    else:
        raise AssertionError('read-only URIValue accepted .%s' % attr)
    assert (v.cssText, v.uri, v.value) == ('url(a.png)', 'a.png', 'a.png')

before = (v.cssText, v.uri, v.value)
raised = None
try:
    v.uri = 'b.png'
except xml.dom.DOMException as e:
    raised = e
after = (v.cssText, v.uri, v.value)
assert isinstance(raised, xml.dom.NoModificationAllowedErr) and before == after, (
    "URIValue('url(a.png)', readonly=True).uri = 'b.png' must be rejected with "
    'NoModificationAllowedErr and change nothing, but raised %r and the value '
    'went from %r to %r' % (raised, before, after)
)
print('ok')
