"""C11: property.cssText = 'color: red ! nope' is rejected after name and
value were accepted; the property is restored by RE-PARSING the serialised old
value. An old value which was read in the (default) non-raising mode with a
logged error, e.g. rgb(1,2%,3), cannot be set again in raising mode: the
restore raises and the property keeps the NEW value 'red'."""
import sys

sys.path.insert(0, __import__('os').environ.get('VERIF_REPO', '/repo'))
import logging
import xml.dom

import cssutils

cssutils.log.setLevel(logging.FATAL)

# default mode of the parser: errors are logged, the value is kept
cssutils.log.raiseExceptions = False
sheet = cssutils.parseString('a { color: rgb(1,2%,3); left: 1px }')
assert b'color: rgb(1, 2%, 3)' in sheet.cssText, sheet.cssText

cssutils.log.raiseExceptions = True
style = sheet.cssRules[0].style
prop = style.getProperty('color')


def state():
    return (
        sheet.cssText,
        style.cssText,
        [(p.name, p.value, p.priority) for p in style.getProperties(all=True)],
        prop.cssText,
    )


before = state()
raised = None
try:
    prop.cssText = 'color: red ! nope'
except xml.dom.DOMException as e:
    raised = e
assert raised is not None, 'expected the new property text to be rejected'
after = state()
assert before == after, (
    "property.cssText = 'color: red ! nope' was rejected with %s (%s) but "
    'property, rule and sheet changed:\nbefore: %r\nafter:  %r'
    % (type(raised).__name__, raised, before, after)
)
print('ok')
