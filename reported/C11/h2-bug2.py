"""C11: importRule.cssText = '@import url(broken.css) tv "new";' is rejected
(the imported sheet does not parse, raising mode) after media, name and the
kind of href (string/url()) of the new text have been taken over."""
import sys

sys.path.insert(0, __import__('os').environ.get('VERIF_REPO', '/repo'))
import logging
import xml.dom

import cssutils

cssutils.log.setLevel(logging.FATAL)


def fetcher(url):
    if 'broken' in url:
        # an @import behind a style rule: HierarchyRequestErr in raising mode
        return None, 'a { color: red } @import "late.css";'
    return None, 'i { top: 0 }'


cssutils.log.raiseExceptions = False
sheet = cssutils.CSSParser(fetcher=fetcher).parseString(
    '@import "ok.css" print "old"; x { left: 0 }', href='http://example.com/main.css'
)
cssutils.log.raiseExceptions = True
rule = sheet.cssRules[0]


def state():
    return (
        sheet.cssText,
        rule.cssText,
        rule.href,
        rule.name,
        rule.media.mediaText,
        rule.hreftype,
        rule.styleSheet.cssText,
        rule.styleSheet.title,
    )


before = state()
raised = None
try:
    rule.cssText = '@import url(broken.css) tv "new";'
except xml.dom.DOMException as e:
    raised = e
assert raised is not None, 'expected the new rule text to be rejected'
after = state()
assert before == after, (
    'importRule.cssText = \'@import url(broken.css) tv "new";\' was rejected with '
    '%s (%s) but rule and sheet changed:\nbefore: %r\nafter:  %r'
    % (type(raised).__name__, raised, before, after)
)
print('ok')
