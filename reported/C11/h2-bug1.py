"""C11: sheet.insertRule(<CSSImportRule object>) is rejected (the imported
sheet does not parse, raising mode) AFTER the rule has been put into the
rule list: the sheet keeps the refused @import rule."""
import sys

sys.path.insert(0, __import__('os').environ.get('VERIF_REPO', '/repo'))
import logging
import xml.dom

import cssutils

cssutils.log.setLevel(logging.FATAL)


def fetcher(url):
    if 'broken' in url:
        # an @import behind a style rule: HierarchyRequestErr in raising mode
        return None, 'a { color: red } @import "late.css";'
    return None, 'i { top: 0 }'


def state(sheet):
    return (
        sheet.cssText,
        [r.cssText for r in sheet.cssRules],
        [r.type for r in sheet.cssRules],
        [r.parentStyleSheet is sheet for r in sheet.cssRules],
    )


cssutils.log.raiseExceptions = False
sheet = cssutils.CSSParser(fetcher=fetcher).parseString(
    '@import "ok.css"; x { left: 0 }', href='http://example.com/main.css'
)
cssutils.log.raiseExceptions = True

for how in ('insertRule', 'add'):
    before = state(sheet)
    rule = cssutils.css.CSSImportRule(href='broken.css')
    raised = None
    try:
        if how == 'insertRule':
            sheet.insertRule(rule, 0)
        else:
            sheet.add(rule)
    except xml.dom.DOMException as e:
        raised = e
    assert raised is not None, 'expected the insertion to be rejected (%s)' % how
    after = state(sheet)
    assert before == after, (
        '%s(CSSImportRule("broken.css")) was rejected with %s (%s) but the sheet '
        'changed:\nbefore: %r\nafter:  %r\nparentStyleSheet of the refused rule: %r'
        % (
            how,
            type(raised).__name__,
            raised,
            before[0],
            after[0],
            rule.parentStyleSheet,
        )
    )
print('ok')
