"""C07: a text whose leading @charset rule has an EMPTY name ('@charset "";a{}')
is encoded by the one-shot css encoder as UTF-8, while the incremental and the
stream encoder raise LookupError for the very same text; and the bytes the
one-shot encoder produced cannot be decoded again (no round trip)."""
import sys

sys.path.insert(0, __import__('os').environ.get('VERIF_REPO', '/repo'))
import io

from cssutils import codec

text = '@charset "";a{b:"\xe9"}'


def run(f):
    try:
        return ('ok', f())
    except Exception as e:  # noqa
        return ('exc', type(e).__name__)


def stream():
    b = io.BytesIO()
    w = codec.StreamWriter(b)
    w.write(text)
    return b.getvalue()


one = run(lambda: codec.encode(text)[0])
inc = run(lambda: codec.IncrementalEncoder().encode(text, True))
cut = run(lambda: b''.join(codec.IncrementalEncoder().iterencode([text[:5], text[5:]])))
sw = run(stream)
print('one-shot   :', one)
print('incremental:', inc)
print('iterencode :', cut)
print('stream     :', sw)

problems = []
if not (one == inc == cut == sw):
    problems.append(
        'chunking invariance: one-shot encode gives %r, IncrementalEncoder gives %r, '
        'iterencode gives %r, StreamWriter gives %r' % (one, inc, cut, sw)
    )
if one[0] == 'ok':
    back = run(lambda: codec.decode(one[1])[0])
    print('decode(encode(text)):', back)
    if back[0] != 'ok':
        problems.append(
            'round trip: encode(text) succeeded with %r but decoding these bytes '
            '(they carry an @charset rule) gives %r' % (one[1], back)
        )
assert not problems, '; '.join(problems)
