"""C07: encoding detection for the byte classes NUL / '@'.

For BOM-less UTF-16/UTF-32 the detector looks for the start of '@charset "'
in that encoding: UTF-16-LE needs the four bytes  @ 00 c 00,  UTF-32-LE
@ 00 00 00,  UTF-32-BE  00 00 00 @.  For UTF-16-BE it decides after only TWO
bytes (00 @) and never looks at the 3rd and 4th byte, so 4-byte prefixes that
are neither a BOM nor the start of an @charset rule in any encoding are
answered 'utf-16-be' instead of the default UTF-8 - and the answer for a text
depends on the byte order it was written in."""
import sys

sys.path.insert(0, __import__('os').environ.get('VERIF_REPO', '/repo'))
from cssutils.codec import detectencoding_str

problems = []

# 4-byte prefixes over the classes {00, '@', 'c', other}: no BOM, not '@c' in UTF-16-BE
for prefix in (b'\x00@\x00i', b'\x00@\x00\x00', b'\x00@xx', b'\x00@\x00@', b'\x00@ch'):
    got = detectencoding_str(prefix, final=True)
    if got != ('utf-8', False):
        problems.append('detectencoding_str(%r, final=True) == %r, expected (\'utf-8\', False): '
                        'no BOM, no @charset rule' % (prefix, got))

# the same text in the two byte orders gets different answers
for text in ('@import "a.css";', '@media print{a{}}'):
    le = detectencoding_str(text.encode('utf-16-le'), final=True)
    be = detectencoding_str(text.encode('utf-16-be'), final=True)
    if (le[0] == 'utf-16-le') != (be[0] == 'utf-16-be'):
        problems.append('%r: UTF-16-LE bytes -> %r but UTF-16-BE bytes -> %r' % (text, le, be))

# the mirror images are handled as the statement says
assert detectencoding_str(b'@\x00i\x00', final=True) == ('utf-8', False)
assert detectencoding_str(b'@\x00c\x00', final=True) == ('utf-16-le', False)
assert detectencoding_str(b'\x00@\x00c', final=True) == ('utf-16-be', False)
assert detectencoding_str(b'\x00\x00\x00i', final=True) == ('utf-8', False)

for p in problems:
    print('PROBLEM:', p)
assert not problems, '; '.join(problems)
