"""C07: the css IncrementalEncoder does not accept the state 0.

The codecs documentation makes 0 the canonical encoder state, and
io.TextIOWrapper calls encoder.setstate(0) whenever a text is written to a
stream that is not at position 0 (append mode, seek(tell()) on a writer).
The css IncrementalEncoder.setstate(0) raises EOFError, so no way of delivering
a text through open(path, 'a', encoding='css') produces the one-shot bytes -
the file cannot even be opened."""
import sys

sys.path.insert(0, __import__('os').environ.get('VERIF_REPO', '/repo'))
import io
import os
import tempfile

import cssutils  # noqa: F401  (registers the codec)
from cssutils import codec

text = 'b{c:"\xe9"}'
one = codec.encode(text)[0]
problems = []

# 1. the bare incremental encoder
e = codec.IncrementalEncoder()
try:
    e.setstate(0)
    got = e.encode(text, True)
    if got != one:
        problems.append('after setstate(0): %r != one-shot %r' % (got, one))
except Exception as exc:  # noqa
    problems.append('IncrementalEncoder().setstate(0) raised %s: %s' % (type(exc).__name__, exc))

# 2. append a text to an existing sheet
fd, path = tempfile.mkstemp(suffix='.css')
os.write(fd, b'a{}')
os.close(fd)
try:
    try:
        with open(path, 'a', encoding='css') as f:
            for chunk in (text[:3], text[3:]):
                f.write(chunk)
        with open(path, 'rb') as f:
            content = f.read()
        if content != b'a{}' + one:
            problems.append('appended file is %r, expected %r' % (content, b'a{}' + one))
    except Exception as exc:  # noqa
        problems.append("open(path, 'a', encoding='css') raised %s: %s" % (type(exc).__name__, exc))

    # 3. a writer that returns to a position it has been at
    try:
        with open(path, 'w', encoding='css') as f:
            f.write('a{}')
            pos = f.tell()
            f.write('xxxxxxxx')
            f.seek(pos)
            f.write(text)
        with open(path, 'rb') as f:
            content = f.read()
        if content != b'a{}' + one:
            problems.append('rewritten file is %r, expected %r' % (content, b'a{}' + one))
    except Exception as exc:  # noqa
        problems.append("writer seek(tell()) raised %s: %s" % (type(exc).__name__, exc))
finally:
    os.unlink(path)

# for comparison: the stdlib codecs accept it
io.TextIOWrapper(io.BytesIO(b'a{}'), encoding='utf-16')  # fine
for p in problems:
    print('PROBLEM:', p)
assert not problems, '; '.join(problems)
