"""C07: an @charset rule that names a Python codec which is no text encoding
(rot13, hex, base64, ...) is refused by the one-shot css encoder/decoder
(LookupError, like an unknown encoding) but the incremental and stream
classes look the codec up with codecs.getincremental*/codecs.lookup, which do
not refuse it: the IncrementalEncoder returns a *str* (rot13) and the
StreamWriter tries to write a str to the byte stream.  One-shot and chunked
results differ for every chunking."""
import sys

sys.path.insert(0, __import__('os').environ.get('VERIF_REPO', '/repo'))
import io

from cssutils import codec

text = '@charset "rot13";a{b:c}'
data = text.encode('ascii')


def run(f):
    try:
        return ('ok', f())
    except Exception as e:  # noqa
        return ('exc', type(e).__name__)


def swrite():
    b = io.BytesIO()
    w = codec.StreamWriter(b)
    w.write(text)
    return b.getvalue()


enc_one = run(lambda: codec.encode(text)[0])
enc_inc = run(lambda: codec.IncrementalEncoder().encode(text, True))
enc_it = run(lambda: list(codec.IncrementalEncoder().iterencode([text[:4], text[4:]])))
enc_sw = run(swrite)
dec_one = run(lambda: codec.decode(data)[0])
dec_inc = run(lambda: codec.IncrementalDecoder().decode(data, True))
dec_sr = run(lambda: codec.StreamReader(io.BytesIO(data)).read())
for k, v in [('encode one-shot', enc_one), ('IncrementalEncoder', enc_inc),
             ('iterencode', enc_it), ('StreamWriter', enc_sw),
             ('decode one-shot', dec_one), ('IncrementalDecoder', dec_inc),
             ('StreamReader', dec_sr)]:
    print('%-20s %r' % (k, v))

problems = []
if not (enc_one == enc_inc == enc_sw):
    problems.append('encoders disagree: one-shot %r, incremental %r, iterencode %r, stream %r'
                    % (enc_one, enc_inc, enc_it, enc_sw))
if enc_inc[0] == 'ok' and not isinstance(enc_inc[1], bytes):
    problems.append('IncrementalEncoder.encode returned %s, not bytes' % type(enc_inc[1]).__name__)
if not (dec_one == dec_inc == dec_sr):
    problems.append('decoders disagree: one-shot %r, incremental %r, stream %r'
                    % (dec_one, dec_inc, dec_sr))
assert not problems, '; '.join(problems)
