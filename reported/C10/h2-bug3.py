r"""C10: a variables block whose last item is a comment (reached by removing the
variable behind the comment, by a repeated name in the replaced text, or by
reading '@variables { x: 1; /*c*/ }') serialises to 'x: 1;\n/*c*/'.  Text
replacement rejects that text (and any text with a comment after the last
semicolon): the serialisation of the block does not list, for the library itself,
the variables the API reports, and cssText = cssText is not the identity.
"""
import sys

sys.path.insert(0, __import__('os').environ.get('VERIF_REPO', '/repo'))
import logging

import cssutils
from cssutils.css import CSSVariablesDeclaration

cssutils.log.setLevel(logging.CRITICAL)
cssutils.ser.prefs.useDefaults()


def api(d):
    return [(k, d.getVariableValue(k)) for k in d.keys()]


def reread(text):
    d = CSSVariablesDeclaration()
    try:
        d.cssText = text
    except Exception as e:  # xml.dom.SyntaxErr
        return 'rejected (%s)' % e
    return api(d)


problems = []

# 1. removal of the variable behind a comment
d = CSSVariablesDeclaration(cssText='x: 1; /*c*/ y: 2')
assert api(d) == [('x', '1'), ('y', '2')]
assert d.removeVariable('Y') == '2'
assert api(d) == [('x', '1')]
if reread(d.cssText) != api(d):
    problems.append(
        "after removeVariable: API %r, serialisation %r read back: %r" % (api(d), d.cssText, reread(d.cssText))
    )

# 2. text replacement with a repeated (case-different) name
d = CSSVariablesDeclaration()
d.cssText = 'x: 1; y: 2; /*c*/ X: 3'
assert api(d) == [('x', '3'), ('y', '2')]
if reread(d.cssText) != api(d):
    problems.append(
        "after text replacement with repeated name: API %r, serialisation %r read back: %r"
        % (api(d), d.cssText, reread(d.cssText))
    )

# 3. the block of a parsed rule
sheet = cssutils.parseString('@variables { x: 1; /*c*/ }')
v = sheet.cssRules[0].variables
assert api(v) == [('x', '1')]
if reread(v.cssText) != api(v):
    problems.append("parsed rule: API %r, serialisation %r read back: %r" % (api(v), v.cssText, reread(v.cssText)))

# 4. text replacement proper: the comment is accepted everywhere but after the last semicolon
for text in ('/*c*/ x: 1;', 'x: 1 /*c*/;', 'x: 1; /*c*/ y: 2', 'x: 1; /*c*/'):
    got = reread(text)
    if not isinstance(got, list) or got[0][0] != 'x':
        problems.append('text replacement %r: %s' % (text, got))

assert not problems, 'C10 violated (variables block ending in a comment):\n  ' + '\n  '.join(problems)
print('ok')
