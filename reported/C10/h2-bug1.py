r"""C10: a value handed to setProperty / item assignment / attribute assignment /
setVariable is passed through Python's str.strip() before it is tokenized, so
characters that are NOT CSS white space (NBSP U+00A0, U+3000, U+2003, U+2028,
U+0085 ... all of them legal identifier characters in CSS) are cut off the value,
and a value ending in an escaped space (r'a\ ') loses the space the escape
belongs to.  The same declaration given through text replacement keeps the value.
"""
import sys

sys.path.insert(0, __import__('os').environ.get('VERIF_REPO', '/repo'))
import logging

import cssutils
from cssutils.css import CSSStyleDeclaration, CSSVariablesDeclaration

cssutils.log.setLevel(logging.CRITICAL)

NBSP = '\xa0'
problems = []

for value in (NBSP + 'red', 'red' + NBSP, '　x', 'x ', NBSP, 'a\\ '):
    # reference: the block built by text replacement
    ref = CSSStyleDeclaration(validating=False)
    ref.cssText = 'x:' + value + ';y:1'
    assert ref.keys() == ['x', 'y'], ref.keys()
    expected = ref.getPropertyValue('x')

    # the same entry made with the API on an empty block
    s = CSSStyleDeclaration(validating=False)
    try:
        s.setProperty('x', value)
        got = s.getPropertyValue('x')
    except Exception as e:  # xml.dom.SyntaxErr
        got = 'rejected: %s' % e
    if got != expected:
        problems.append(
            'setProperty("x", %r): stored value %r, text replacement "x:%s" stores %r'
            % (value, got, value, expected)
        )

    # item assignment
    s = CSSStyleDeclaration(validating=False)
    try:
        s['x'] = value
        got = s['x']
    except Exception as e:
        got = 'rejected: %s' % e
    if got != expected:
        problems.append('style["x"] = %r: stored value %r, expected %r' % (value, got, expected))

    # variables block
    vref = CSSVariablesDeclaration(cssText='x:' + value + ';y:1')
    vexpected = vref.getVariableValue('x')
    v = CSSVariablesDeclaration()
    try:
        v.setVariable('x', value)
        got = v.getVariableValue('x')
    except Exception as e:
        got = 'rejected: %s' % e
    if got != vexpected:
        problems.append(
            'setVariable("x", %r): stored value %r, text replacement stores %r'
            % (value, got, vexpected)
        )

# attribute-style access
s = CSSStyleDeclaration(validating=False)
s.color = NBSP + 'red'
ref = CSSStyleDeclaration(validating=False, cssText='color:' + NBSP + 'red')
if s.color != ref.color:
    problems.append('style.color = %r: stored %r, text replacement stores %r' % (NBSP + 'red', s.color, ref.color))

assert not problems, 'C10 violated (value is stripped of non-CSS white space):\n  ' + '\n  '.join(problems)
print('ok')
