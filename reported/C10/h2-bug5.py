r"""C10: in replaced text the identifier  c\5c olor  (hex escape of a backslash)
and the identifier  c\\olor  (simple escape of a backslash) are two spellings of
ONE name (c, backslash, o, l, o, r), and both differ from the name 'color'.
The block treats the first as an entry of 'color' and the second as another
name: distinct names are merged, equal names are kept apart.
"""
import sys

sys.path.insert(0, __import__('os').environ.get('VERIF_REPO', '/repo'))
import logging

import cssutils
from cssutils.css import CSSStyleDeclaration, CSSVariablesDeclaration

cssutils.log.setLevel(logging.CRITICAL)

problems = []

# 1. two different names are merged into one
s = CSSStyleDeclaration(validating=False)
s.cssText = r'c\5c olor: red; color: blue'
if s.length != 2:
    problems.append(
        r"cssText 'c\5c olor: red; color: blue' declares two different names, but length == %d, keys() == %r, "
        "entries %r" % (s.length, s.keys(), [(p.literalname, p.name, p.value) for p in s.getProperties(all=True)])
    )
s = CSSStyleDeclaration(validating=False)
s.cssText = r'c\5c olor: red'
if 'color' in s or s.color != '' or s.getPropertyValue('color') != '':
    problems.append(
        r"cssText 'c\5c olor: red' does not set 'color', but ('color' in style) == %r, style.color == %r, "
        "serialised as %r" % ('color' in s, s.color, s.cssText)
    )
s.cssText = r'c\5c olor: red; top: 1px'
r = s.removeProperty('color')
if r != '' or s.length != 2:
    problems.append(r"removeProperty('color') on 'c\5c olor: red; top: 1px' returned %r and left %r" % (r, s.keys()))

# 2. two spellings of the same name are two names
s = CSSStyleDeclaration(validating=False)
s.cssText = r'c\5c olor: red; c\\olor: green'
if s.length != 1 or [p.value for p in s] != ['green']:
    problems.append(
        r"cssText 'c\5c olor: red; c\\olor: green' declares ONE name twice, but length == %d, keys() == %r"
        % (s.length, s.keys())
    )

# 3. the variables block does the same
d = CSSVariablesDeclaration(cssText=r'c\5c olor: red; color: blue')
if d.length != 2 or d.getVariableValue('color') != 'blue':
    problems.append(
        r"variables 'c\5c olor: red; color: blue' declares two variables, API reports %r, serialisation %r"
        % ([(k, d.getVariableValue(k)) for k in d.keys()], d.cssText)
    )

assert not problems, 'C10 violated (hex-escaped backslash in a name):\n  ' + '\n  '.join(problems)
print('ok')
