r"""C10: names are folded with Python's Unicode aware, context sensitive
str.lower().  Property._setName lower-cases the literal name first and removes the
escapes afterwards, every lookup (helper.normalize) removes the escapes first and
lower-cases afterwards.  For GREEK CAPITAL SIGMA, whose lower case depends on
the neighbouring characters, the two orders give different names: the entry made
by  setProperty(r'Α\Σ', ...)  (or by text replacement) is stored as 'ασ' and
looked up as 'ας' - the very spelling that created the entry does not find it.
"""
import sys

sys.path.insert(0, __import__('os').environ.get('VERIF_REPO', '/repo'))
import logging

import cssutils
from cssutils.css import CSSStyleDeclaration

cssutils.log.setLevel(logging.CRITICAL)

name = 'Α\\Σ'  # GREEK CAPITAL ALPHA, backslash, GREEK CAPITAL SIGMA: a legal identifier with a simple escape
problems = []

for how in ('setProperty', 'cssText'):
    s = CSSStyleDeclaration(validating=False)
    if how == 'setProperty':
        s.setProperty(name, 'red')
    else:
        s.cssText = name + ': red'
    assert s.length == 1 and len(s.getProperties(all=True)) == 1
    key = s.keys()[0]

    if name not in s:
        problems.append('%s: after creating the entry as %r, (%r in style) is False; keys() == %r' % (how, name, name, s.keys()))
    if s.getPropertyValue(name) != 'red' or s[name] != 'red':
        problems.append('%s: getPropertyValue(%r) == %r, expected "red"' % (how, name, s.getPropertyValue(name)))

    # an update must modify the entry in place
    s.setProperty(name, 'blue')
    entries = [(p.literalname, p.name, p.value) for p in s.getProperties(all=True)]
    if len(entries) != 1 or entries[0][2] != 'blue':
        problems.append('%s: second set with the same spelling appended a duplicate: %r' % (how, entries))

    # removal deletes every entry of the name and returns the effective value
    r = s.removeProperty(name)
    if r != 'blue' or s.length != 0:
        problems.append('%s: removeProperty(%r) returned %r and left %d name(s): %r' % (how, name, r, s.length, s.keys()))

assert not problems, 'C10 violated (stored name and lookup name are folded differently):\n  ' + '\n  '.join(problems)
print('ok')
