r"""C10: the serialisation of a CSSVariablesDeclaration is passed through Python's
str.strip(), which removes characters that are not CSS white space (NBSP U+00A0,
U+3000, U+2028 ...; all legal identifier characters).  When the first variable
name starts with such a character, or the last value ends with one, the text
lists another variable / another value than the API reports.
"""
import sys

sys.path.insert(0, __import__('os').environ.get('VERIF_REPO', '/repo'))
import logging

import cssutils
from cssutils.css import CSSVariablesDeclaration

cssutils.log.setLevel(logging.CRITICAL)
cssutils.ser.prefs.useDefaults()

NBSP = '\xa0'


def api(d):
    return [(k, d.getVariableValue(k)) for k in d.keys()]


problems = []

# 1. value of the last variable ends in NBSP (identifier 'red<NBSP>')
d = CSSVariablesDeclaration(cssText='a: 1; x: red' + NBSP + ';')
assert api(d) == [('a', '1'), ('x', 'red' + NBSP)], api(d)
text = d.cssText
back = CSSVariablesDeclaration(cssText=text)
if api(back) != api(d):
    problems.append('API reports %r, serialisation %r lists %r' % (api(d), text, api(back)))

# 2. name of the first variable starts with NBSP (set through the API; the
#    escaped spelling r'\<NBSP>x' normalises to the same name)
for name in (NBSP + 'x', '\\' + NBSP + 'x'):
    d = CSSVariablesDeclaration()
    d.setVariable(name, '1')
    d.setVariable('b', '2')
    assert d.keys() == [NBSP + 'x', 'b'], d.keys()
    assert name in d and d[name] == '1'
    text = d.cssText
    back = CSSVariablesDeclaration(cssText='q:0;' + text)  # prefix keeps the parser's own strip() away
    listed = [k for k in back.keys() if k != 'q']
    if listed != d.keys():
        problems.append(
            'setVariable(%r): keys() == %r but serialisation %r lists %r' % (name, d.keys(), text, listed)
        )

# 3. same after an update through item assignment (U+3000 IDEOGRAPHIC SPACE)
d = CSSVariablesDeclaration(cssText='a: 1; x: 2')
d['x'] = 'f(1)'
d.cssText = 'a: 1; x: y　;'
if not d.cssText.endswith('　'):
    problems.append('API value %r, serialisation %r' % (d['x'], d.cssText))

assert not problems, 'C10 violated (serialisation of variables block is strip()ped):\n  ' + '\n  '.join(problems)
print('ok')
