"""C18 - an integer valued literal of large magnitude written WITH a fraction
('.0', '.000') is not written as the same number: everything that contains a
'.' is stored as a Python float, and the serialiser then prints int(float).

  9007199254740993.0px        -> 9007199254740992px
  99999999999999999999999.0   -> 99999999999999991611392
whereas the same literals without '.0' are kept exactly.
(Not the known '%f' noise: '%f' is not involved, the value is an integer and
is written by the str(int(...)) branch; the digits are lost on the way IN.)
"""
import sys

sys.path.insert(0, __import__('os').environ.get('VERIF_REPO', '/repo'))
import logging
from decimal import Decimal

import cssutils
from cssutils.css import PropertyValue

cssutils.log.setLevel(logging.FATAL)
cssutils.log.raiseExceptions = False

failures = []
for om in (False, True):
    cssutils.ser.prefs.omitLeadingZero = om
    for num in (
        '9007199254740993',
        '-9007199254740993',
        '+36028797018963969',
        '12345678901234567891',
        '99999999999999999999999',
    ):
        for frac in ('', '.0', '.000000'):
            for unit in ('', 'px', '%'):
                src = num + frac + unit
                pv = PropertyValue(src)
                assert pv.wellformed, src
                out = pv.cssText
                written = out[: len(out) - len(unit)] if unit else out
                if Decimal(written) != Decimal(num + frac):
                    failures.append(
                        f'omitLeadingZero={om}: {src!r} is written {out!r} '
                        f'(off by {Decimal(written) - Decimal(num + frac)}), typed '
                        f'value {pv[0].value!r}'
                    )

assert not failures, '\n' + '\n'.join(failures[:12]) + f'\n... {len(failures)} failures'
print('ok')
