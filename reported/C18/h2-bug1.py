"""C18 - the unit of a zero length is dropped where a unit-less 0 is NOT a length.

'0px' -> '0' is only meaning-preserving where CSS reads a bare 0 as <length>.
Inside the math functions calc()/min()/max()/clamp() a bare 0 is a <number>:
calc(0 + 10%) and max(0, 10%) are type errors, browsers drop the declaration.
The same blind rule turns 'flex: 0px' (flex-basis 0px, grow 1) into 'flex: 0'
(flex-grow 0) and a custom property '--x: 0px' into '--x: 0'.
"""
import sys

sys.path.insert(0, __import__('os').environ.get('VERIF_REPO', '/repo'))
import logging

import cssutils
from cssutils.css import PropertyValue

cssutils.log.setLevel(logging.FATAL)
cssutils.log.raiseExceptions = False


def operands(value):
    "typed (type, number, unit) of every number in a (nested) value"
    res = []
    for item in value.seq:
        v = item.value
        if isinstance(v, cssutils.css.DimensionValue):
            res.append((v.type, v.value, v.dimension))
        elif hasattr(v, 'seq'):
            res.extend(operands(v))
    return res


failures = []
for om in (False, True):
    cssutils.ser.prefs.omitLeadingZero = om
    for src in (
        'calc(0px + 10%)',
        'calc(100% - 0px)',
        'calc(0em * 2)',
        'max(0px, 10%)',
        'min(0em, 1px)',
        'clamp(0px, 5vw, 10px)',
        'calc(1px + calc(0pt - 1%))',
    ):
        pv = PropertyValue(src)
        assert pv.wellformed, src
        out = pv.cssText
        pv2 = PropertyValue(out)
        if operands(pv2) != operands(pv):
            failures.append(
                f'omitLeadingZero={om}: {src!r} is written {out!r}: operands '
                f'{operands(pv)} became {operands(pv2)} (a bare 0 inside a math '
                f'function is a <number>, not a length)'
            )

sheet = cssutils.parseString('a{width:calc(100% - 0px);margin-left:max(0px, 10%);flex:0px}')
text = sheet.cssText.decode()
for needle in ('calc(100% - 0px)', 'max(0px, 10%)', 'flex: 0px'):
    if needle not in text:
        failures.append(f'sheet output lacks {needle!r}: {text!r}')

assert not failures, '\n' + '\n'.join(failures)
print('ok')
