"""C18 - white space that separates two components of an IE function value
(expression(), alpha(), shadow(), chroma() ... = cssutils.css.MSValue) is dropped:
neighbouring numbers / words are glued into ONE different token.

  expression(1 0.5)        -> expression(10.5)   (omitLeadingZero: expression(1.5))
  expression(new Date())   -> expression(newDate())
  shadow(direction=135 strength=0.5) -> shadow(direction=135strength=0.5)
"""
import sys

sys.path.insert(0, __import__('os').environ.get('VERIF_REPO', '/repo'))
import logging

import cssutils
from cssutils.css import PropertyValue
from cssutils.tokenize2 import Tokenizer

cssutils.log.setLevel(logging.FATAL)
cssutils.log.raiseExceptions = False


def tokens(text):
    "the CSS tokens of text without white space"
    return [(t[0], t[1]) for t in Tokenizer().tokenize(text) if t[0] != 'S']


def numbers(text):
    return [float(t[1]) for t in Tokenizer().tokenize(text) if t[0] == 'NUMBER']


failures = []
for om in (False, True):
    cssutils.ser.prefs.omitLeadingZero = om
    for src in (
        'expression(1 0.5)',
        'expression(1 1)',
        'expression(1px 2px)',
        'expression(new Date())',
        'expression(typeof x == "undefined" ? 0 : 1)',
        'shadow(color=red, direction=135 strength=0.5)',
    ):
        pv = PropertyValue(src)
        assert pv.wellformed and isinstance(pv[0], cssutils.css.MSValue), src
        out = pv.cssText
        if numbers(out) != numbers(src):
            failures.append(
                f'omitLeadingZero={om}: {src!r} -> {out!r}: the numbers '
                f'{numbers(src)} became {numbers(out)}'
            )
        elif [v for t, v in tokens(out)] != [v for t, v in tokens(src)]:
            failures.append(
                f'omitLeadingZero={om}: {src!r} -> {out!r}: components were '
                f'glued together: {tokens(src)} became {tokens(out)}'
            )

text = cssutils.parseString(
    'a{width:expression(new Date().getHours() > 12 ? "1px" : "2px")}'
).cssText.decode()
if 'new Date' not in text:
    failures.append(f'sheet: "new Date()" became "newDate()": {text!r}')

assert not failures, '\n' + '\n'.join(failures)
print('ok')
