"""C02: the text of a comment is not what was written: the tokenizer applies
CSS escape resolution to COMMENT tokens although comments have no escapes. A
backslash followed by hex digits inside a comment is replaced by the character
(even by a lone surrogate) and the white space behind it is swallowed."""
import sys

sys.path.insert(0, __import__('os').environ.get('VERIF_REPO', '/repo'))
import logging

import cssutils

cssutils.log.setLevel(logging.FATAL)


def comments(text):
    sheet = cssutils.parseString(text)
    out = []
    for r in sheet.cssRules:
        if r.type == r.COMMENT:
            out.append(r.cssText)
        elif r.type == r.STYLE_RULE:
            out.extend(i.value.cssText for i in r.style.seq if isinstance(i.value, cssutils.css.CSSComment))
            for s in r.selectorList:
                out.extend(i.value.cssText for i in s.seq if isinstance(i.value, cssutils.css.CSSComment))
    return out


failures = []
for text, written in [
    (r'/* see C:\dead\beef and \41 */ a{top:0}', [r'/* see C:\dead\beef and \41 */']),
    (r'a{/* \26 B */top:0}', [r'/* \26 B */']),
    (r'a/* was: a\3a hover */{top:0}', [r'/* was: a\3a hover */']),
    ('/* plain */ a{top:0}', ['/* plain */']),
]:
    got = comments(text)
    print('%s\n   comments in the DOM: %s' % (ascii(text), ascii(got)))
    if got != written:
        failures.append((text, got))

assert not failures, (
    'the DOM does not hold the comments of the source but altered text '
    '(escape resolution applied inside comments): %s' % ascii(failures)
)
print('ok')
