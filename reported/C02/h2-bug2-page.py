"""C02 (the @page part of h2-bug2; cssutils/tests/test_csspagerule.py pins the SyntaxErr of the raising mode, so not repaired): a comment between the two tokens that make up a pseudo-class
(':' IDENT), a class ('.' IDENT), a qualified name (prefix '|' name) or a page
pseudo (':' first) is not "just a comment": with parseComments=True the rule is
dropped or - worse - silently gets another meaning, with parseComments=False the
same text gives the DOM of the comment free text."""
import sys

sys.path.insert(0, __import__('os').environ.get('VERIF_REPO', '/repo'))
import logging

import cssutils

cssutils.log.setLevel(logging.FATAL)


def shape(text, **kw):
    "the DOM without its comments"
    sheet = cssutils.CSSParser(**kw).parseString(text)
    out = []
    for r in sheet.cssRules:
        if r.type == r.COMMENT:
            continue
        if r.type == r.STYLE_RULE:
            sels = [
                [(i.type, i.value) for i in s.seq if i.type != 'COMMENT']
                for s in r.selectorList
            ]
            props = [(p.name, p.propertyValue.value, p.priority) for p in r.style.getProperties(all=True)]
            out.append(('style', sels, props))
        elif r.type == r.PAGE_RULE:
            sel = [(i.type, i.value) for i in r._selectorText if i.type != 'COMMENT']
            out.append(('page', sel, r.specificity, [(p.name, p.propertyValue.value) for p in r.style.getProperties(all=True)]))
        elif r.type == r.NAMESPACE_RULE:
            out.append(('namespace', r.prefix, r.namespaceURI))
        else:
            out.append((r.type, r.cssText))
    return out


cases = [
    '@page :/**/first{top:0}',                  # silently: a page NAMED first
]
failures = []
for text in cases:
    plain = text.replace('/**/', '')
    want = shape(plain)
    with_comments = shape(text)                     # parseComments=True (default)
    without = shape(text, parseComments=False)
    if not (want == with_comments == without):
        failures.append(text)
        print('INPUT %r' % text)
        print('   comment free text      : %r' % (want,))
        print('   parseComments=True     : %r' % (with_comments,))
        print('   parseComments=False    : %r' % (without,))

# control: comments at other places of the same selectors are fine
assert shape('a/**/:hover/**/{top:0}') == shape('a:hover{top:0}')

assert not failures, (
    'a comment between two tokens changes the DOM by more than the comment (rule lost / '
    'other namespace / other page selector), and parseComments=False does not '
    '"remove exactly the comments": %r' % failures
)
print('ok')
