"""C02: 'u+a{...}' (adjacent sibling combinator written without white space
after a type selector u / class .u) is tokenized as UNICODE-RANGE and the
whole style rule is lost, although 'u + a{...}' is parsed fine."""
import sys

sys.path.insert(0, __import__('os').environ.get('VERIF_REPO', '/repo'))
import logging

import cssutils

cssutils.log.setLevel(logging.FATAL)


def shape(text, **kw):
    sheet = cssutils.CSSParser(**kw).parseString(text)
    out = []
    for r in sheet.cssRules:
        if r.type == r.STYLE_RULE:
            sels = [
                [(i.type, i.value) for i in s.seq if i.type != 'COMMENT']
                for s in r.selectorList
            ]
            props = [(p.name, p.propertyValue.value, p.priority) for p in r.style.getProperties(all=True)]
            out.append((sels, props))
        else:
            out.append(r.cssText)
    return out


failures = []
for spaced, tight in [
    ('u + a{color:red}', 'u+a{color:red}'),
    ('x{top:0} u + b{color:red} y{left:0}', 'x{top:0} u+b{color:red} y{left:0}'),
    ('li.u + div{color:red}', 'li.u+div{color:red}'),
    ('U + abbr{color:red}', 'U+abbr{color:red}'),
    ('@media print{u + code{color:red}}', '@media print{u+code{color:red}}'),
]:
    for kw in ({}, {'parseComments': False}, {'validate': False}):
        want = shape(spaced, **kw)
        got = shape(tight, **kw)
        if want != got:
            failures.append((tight, kw, want, got))

# control: the same spelling with another element name works
assert shape('v + a{color:red}') == shape('v+a{color:red}')

for tight, kw, want, got in failures:
    print('INPUT   %r %r' % (tight, kw))
    print('  expected (DOM of the white space variant): %r' % (want,))
    print('  observed                                : %r' % (got,))
assert not failures, (
    "%d renderings of a sheet that differ only in the optional white space around '+' "
    "give different DOMs: the style rule with the selector 'u+a' is lost "
    "(tokenized as UNICODE-RANGE)" % len(failures)
)
print('ok')
