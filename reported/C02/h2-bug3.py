"""C02: a media query whose feature value is a ratio ('16/9', i.e. the
documented "expr" with the '/' operator) is rejected; the @media rule that was
written is replaced in the DOM by an empty '@media all' rule (its style rules
are lost), an @import rule with such a query is dropped."""
import sys

sys.path.insert(0, __import__('os').environ.get('VERIF_REPO', '/repo'))
import logging

import cssutils

cssutils.log.setLevel(logging.FATAL)


def mediarule(text, **kw):
    sheet = cssutils.CSSParser(**kw).parseString(text)
    rules = [r for r in sheet.cssRules if r.type != r.COMMENT]
    return sheet, rules


for kw in ({}, {'parseComments': False}, {'validate': False}):
    # control: same sheet with a one-term feature value
    sheet, rules = mediarule('@media screen and (min-width: 16px){a{top:0}} b{left:0}', **kw)
    assert [r.type for r in rules] == [rules[0].MEDIA_RULE, rules[0].STYLE_RULE]
    assert 'min-width' in rules[0].media.mediaText and len(rules[0].cssRules) == 1

    sheet, rules = mediarule('@media screen and (min-aspect-ratio: 16/9){a{top:0}} b{left:0}', **kw)
    assert len(rules) == 2 and rules[0].type == rules[0].MEDIA_RULE, rules
    m = rules[0]
    print(kw, 'media text in the DOM: %r, rules inside: %r' % (m.media.mediaText, [r.cssText for r in m.cssRules]))
    assert 'min-aspect-ratio' in m.media.mediaText.lower(), (
        "source says '@media screen and (min-aspect-ratio: 16/9)', the DOM has an "
        "@media rule for %r" % m.media.mediaText
    )
    assert [r.selectorText for r in m.cssRules] == ['a'], (
        'the style rule inside the @media rule is lost: %r' % list(m.cssRules)
    )

    sheet, rules = mediarule('@import "x.css" screen and (aspect-ratio: 4/3);', **kw)
    assert len(rules) == 1 and rules[0].type == rules[0].IMPORT_RULE, (
        '@import with a ratio in its media query is not in the DOM: %r' % rules
    )
print('ok')
