"""C02: letter case of function names: every function value is normalized to
lower case (RGB( -> rgb(, ATTR( -> attr(, Url( -> url) except calc( and the
functions routed to MSValue (blur(, invert(, alpha(, ...)): they keep the
spelling of the source, so 'CALC(1px + 2px)' and 'calc(1px + 2px)' give
different value components in the DOM."""
import sys

sys.path.insert(0, __import__('os').environ.get('VERIF_REPO', '/repo'))
import logging

import cssutils

cssutils.log.setLevel(logging.FATAL)


def values(text, **kw):
    sheet = cssutils.CSSParser(**kw).parseString(text)
    out = []
    for r in sheet.cssRules:
        for p in r.style.getProperties(all=True):
            out.append((p.name, p.propertyValue.value, [(type(v).__name__, v.cssText) for v in p.propertyValue]))
    return out


# control: these function names are case-insensitive in the DOM
for lower, other in [
    ('a{color:rgb(1,2,3)}', 'a{color:RGB(1,2,3)}'),
    ('a{content:attr(x)}', 'a{content:ATTR(x)}'),
    ('a{content:counter(x)}', 'a{content:Counter(x)}'),
    ('a{width:var(x)}', 'a{width:VAR(x)}'),
    ('a{background:url(x.png)}', 'a{background:URL(x.png)}'),
    ('a{width:1px}', 'a{width:1PX}'),
]:
    assert values(lower) == values(other), (lower, other)

failures = []
for lower, other in [
    ('a{width:calc(1px + 2px)}', 'a{width:CALC(1px + 2px)}'),
    ('a{width:calc(1px + 2px)}', 'a{width:Calc(1px + 2px)}'),
    ('a{margin:0 calc(1px * 2) f(calc(2px))}', 'a{margin:0 cAlc(1px * 2) f(CALC(2px))}'),
    ('a{filter:blur(5px)}', 'a{filter:Blur(5px)}'),
    ('a{filter:invert(1)}', 'a{filter:INVERT(1)}'),
]:
    for kw in ({}, {'validate': False}, {'parseComments': False}):
        a, b = values(lower, **kw), values(other, **kw)
        if a != b:
            failures.append((other, kw))
            print('%r %r\n   lower case spelling: %r\n   this spelling      : %r' % (other, kw, a, b))

assert not failures, (
    'the DOM value depends on the letter case of the function name: %r' % failures
)
print('ok')
