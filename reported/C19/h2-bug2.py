"""C19: the csscombine command line script does not write the combined sheet.

cssutils.script.csscombine() returns the serialized sheet as *bytes* (it returns
CSSStyleSheet.cssText).  cssutils/scripts/csscombine.py prints that value, so
stdout holds the Python repr  b'@charset "utf-8";\\n/* START ... */\\na {\\n ...'
(with literal backslash-n and \\x escapes) instead of a style sheet - for normal
and for minified output and for every target encoding.
"""
import sys

sys.path.insert(0, __import__('os').environ.get('VERIF_REPO', '/repo'))

import logging
import atexit
import os
import shutil
import subprocess
import tempfile

import cssutils

cssutils.log.setLevel(logging.FATAL)

tmp = tempfile.mkdtemp(prefix='c19cli')
atexit.register(shutil.rmtree, tmp, True)
os.mkdir(os.path.join(tmp, 'sub'))
with open(os.path.join(tmp, 'main.css'), 'w', encoding='utf-8') as f:
    f.write('@import "sub/a.css";\nm { color: blue }')
with open(os.path.join(tmp, 'sub', 'a.css'), 'w', encoding='utf-8') as f:
    f.write('a { background: url(img/x.png); content: "ü" }')

env = dict(os.environ, PYTHONPATH=os.environ.get('VERIF_REPO', '/repo'), PYTHONIOENCODING='utf-8')
problems = []
for opts in ([], ['-m'], ['-m', '-t', 'ascii'], ['-t', 'iso-8859-1']):
    proc = subprocess.run(
        [sys.executable, '-m', 'cssutils.scripts.csscombine', *opts,
         os.path.join(tmp, 'main.css')],
        cwd=os.environ.get('VERIF_REPO', '/repo'), env=env, capture_output=True,
    )
    assert proc.returncode == 0, proc.stderr
    out = proc.stdout
    # what was written is supposed to be the combined sheet
    sheet = cssutils.parseString(out)
    selectors = [r.selectorText for r in sheet.cssRules if r.type == r.STYLE_RULE]
    urls = list(cssutils.getUrls(sheet))
    if selectors != ['a', 'm'] or urls != ['sub/img/x.png']:
        problems.append(
            'csscombine %s: stdout is %r -> rules %r urls %r'
            % (' '.join(opts), out[:70], selectors, urls)
        )

assert not problems, (
    'the script does not output the combined sheet (expected rules a, m and '
    'url(sub/img/x.png)):\n' + '\n'.join(problems)
)
print('OK')
