"""C19: re-basing of relative url() values goes through posixpath.normpath,
which is not URL path normalisation.

Replacer.__call__ joins the directory of the @import href and the relative path
with posixpath.normpath and re-appends a "/" only when the reference literally
ends with "/".  For some legal relative references the rewritten value no longer
resolves to the absolute URL it had from its own sheet:

  sub/a.css : url(.)  url(img/..)  -> url(sub)    (directory .../sub/ became file .../sub)
  /c.css    : url(./) url(../)     -> url(//)     (network-path reference without host)
  d.css     : url(./a:b.png)       -> url(a:b.png) ("a:" is a URL scheme now)
"""
import sys

sys.path.insert(0, __import__('os').environ.get('VERIF_REPO', '/repo'))

import logging
from urllib.parse import urljoin

import cssutils

cssutils.log.setLevel(logging.FATAL)

MAIN = 'http://example.org/css/main.css'
FILES = {
    MAIN: '@import "sub/a.css";\n@import "/c.css";\n@import "d.css";',
    'http://example.org/css/sub/a.css': 'p { background: url(.); cursor: url(img/..), auto }',
    'http://example.org/c.css': 'r { background: url(./); cursor: url(../), auto }',
    'http://example.org/css/d.css': 's { background: url(./a:b.png) }',
}


def fetcher(url):
    if url in FILES:
        return None, FILES[url].encode('utf-8')
    return None


sheet = cssutils.CSSParser(fetcher=fetcher).parseString(FILES[MAIN], href=MAIN)

# absolute URL of every url() as seen from its own sheet, in cascade order
expected = []
for rule in sheet.cssRules:
    assert rule.type == rule.IMPORT_RULE and rule.hrefFound, rule.cssText
    imported = rule.styleSheet
    expected += [(u, urljoin(imported.href, u)) for u in cssutils.getUrls(imported)]

flat = cssutils.resolveImports(sheet)
text = flat.cssText.decode()
combined = cssutils.parseString(text, href=MAIN)
got = [(u, urljoin(MAIN, u)) for u in cssutils.getUrls(combined)]
assert len(got) == len(expected), text

wrong = [
    'url(%s) meant %s, now url(%s) means %s' % (e[0], e[1], g[0], g[1])
    for e, g in zip(expected, got)
    if e[1] != g[1]
]
assert not wrong, (
    'relative URLs resolve to another absolute URL after flattening:\n  '
    + '\n  '.join(wrong)
    + '\n'
    + text
)
print('OK')
