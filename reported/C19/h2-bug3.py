"""C19: flattening merges the @variables scopes of different sheets.

Two imported sheets each define a variable "c" for their own rules.  In the
import tree every sheet resolves var(c) with its own definition (that is what
cssutils itself serializes for each imported sheet).  resolveImports() copies
both @variables rules into one sheet, where the last definition wins for ALL
rules, so the rule of the first sheet silently changes its value.
"""
import sys

sys.path.insert(0, __import__('os').environ.get('VERIF_REPO', '/repo'))

import logging

import cssutils

cssutils.log.setLevel(logging.FATAL)

BASE = 'http://example.org/css/'
FILES = {
    BASE + 'main.css': '@import "a.css";\n@import "b.css";',
    BASE + 'a.css': '@variables { c: red }\nq { color: var(c) }',
    BASE + 'b.css': '@variables { c: green }\nr { color: var(c) }',
}


def fetcher(url):
    if url in FILES:
        return None, FILES[url].encode('utf-8')
    return None


def colors(sheet):
    "selector -> resolved color of all style rules of a serialized sheet"
    parsed = cssutils.parseString(sheet.cssText)
    return {
        r.selectorText: r.style.getPropertyValue('color')
        for r in parsed.cssRules
        if r.type == r.STYLE_RULE
    }


sheet = cssutils.CSSParser(fetcher=fetcher).parseString(
    FILES[BASE + 'main.css'], href=BASE + 'main.css'
)
# meaning in the import tree: every imported sheet as cssutils resolves it
before = {}
for rule in sheet.cssRules:
    assert rule.type == rule.IMPORT_RULE and rule.hrefFound
    before.update(colors(rule.styleSheet))
assert before == {'q': 'red', 'r': 'green'}, before

flat = cssutils.resolveImports(sheet)
after = colors(flat)
assert after == before, (
    'flattening changed the value of var(c) for a rule: in the import tree %r, '
    'in the combined sheet %r\n%s' % (before, after, flat.cssText.decode())
)
print('OK')
