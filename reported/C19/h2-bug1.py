"""C19: flattening crashes when the href of a resolvable @import contains "*/".

resolveImports() announces every flattened @import with a comment built as
'/* START @import "%s" */' % href.  A legal URL such as "x*/a.css" (a directory
whose name ends with "*") closes that comment early, CSSComment refuses the
text and the whole flattening (and csscombine) dies with InvalidModificationErr
instead of producing the combined sheet.
"""
import sys

sys.path.insert(0, __import__('os').environ.get('VERIF_REPO', '/repo'))

import logging

import cssutils

cssutils.log.setLevel(logging.FATAL)

BASE = 'http://example.org/css/'
FILES = {
    BASE + 'main.css': '@import "x*/a.css";\nm { color: blue }',
    BASE + 'x*/a.css': 'a { background: url(img/a.png) }',
}
fetched = []


def fetcher(url):
    fetched.append(url)
    if url in FILES:
        return None, FILES[url].encode('utf-8')
    return None


sheet = cssutils.CSSParser(fetcher=fetcher).parseString(
    FILES[BASE + 'main.css'], href=BASE + 'main.css'
)
imp = sheet.cssRules[0]
assert imp.type == imp.IMPORT_RULE and imp.hrefFound, 'precondition: target is available'
assert imp.styleSheet.cssRules.length == 1, 'precondition: target parsed'

try:
    flat = cssutils.resolveImports(sheet)
except Exception as e:  # noqa: BLE001
    raise AssertionError(
        'resolveImports failed for the available target %r: %r' % (imp.href, e)
    ) from e

text = flat.cssText.decode()
check = cssutils.parseString(text, href=BASE + 'main.css')
rules = [r for r in check.cssRules if r.type == r.STYLE_RULE]
assert [r.selectorText for r in rules] == ['a', 'm'], text
assert list(cssutils.getUrls(check)) == ['x*/img/a.png'], text
print('OK')
