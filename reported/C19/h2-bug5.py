"""C19: a query-only relative reference url(?...) of an imported sheet is not
re-based.

"?img=logo" is a relative reference (RFC 3986 4.2/5.2): it keeps the path of the
base URL - the sheet it is written in - and replaces the query.  From
css/gen/style.css it means css/gen/style.css?img=logo.  Replacer treats every
reference without path as "reference to the document itself" and copies it
unchanged, so in the combined sheet it means css/main.css?img=logo.
"""
import sys

sys.path.insert(0, __import__('os').environ.get('VERIF_REPO', '/repo'))

import logging
from urllib.parse import urljoin

import cssutils

cssutils.log.setLevel(logging.FATAL)

MAIN = 'http://example.org/css/main.css'
SUB = 'http://example.org/css/gen/style.css'
FILES = {
    MAIN: '@import "gen/style.css";',
    SUB: 'a { background: url(?img=logo) }\nb { background: url(x.png?v=1) }',
}


def fetcher(url):
    if url in FILES:
        return None, FILES[url].encode('utf-8')
    return None


sheet = cssutils.CSSParser(fetcher=fetcher).parseString(FILES[MAIN], href=MAIN)
imported = sheet.cssRules[0].styleSheet
assert sheet.cssRules[0].hrefFound
expected = [urljoin(SUB, u) for u in cssutils.getUrls(imported)]
assert expected == [
    'http://example.org/css/gen/style.css?img=logo',
    'http://example.org/css/gen/x.png?v=1',
], expected

flat = cssutils.resolveImports(sheet)
text = flat.cssText.decode()
got = [urljoin(MAIN, u) for u in cssutils.getUrls(cssutils.parseString(text, href=MAIN))]
assert got == expected, (
    'url(?img=logo) of gen/style.css resolves to another absolute URL after '
    'flattening:\n  expected %r\n  got      %r\n%s' % (expected, got, text)
)
print('OK')
