"""C08 — sheet/import encoding precedence; serialised bytes decodable and lossless."""

import codecs
import os
import tempfile

from hypothesis import strategies as st

import cssutils
from checks.c03_roundtrip import LOSSLESS, Prefs, drop_empty, flatten_nested_comments
from vlib import cssmodel as A
from vlib import project as P
from vlib.runner import VERIF, Sub, Violation, frame_sig, lib

PROPERTY = 'C08'
RULE = (
    'ladder: import chains of depth 1..3 over a recording fetcher; per level: transport charset given or not, content with '
    'UTF-8 BOM / @charset E / neither, delivered as bytes or text, fetcher result data / None / (None, None); top level parsed '
    'from text or bytes with or without @charset and with or without an explicit override; encodings drawn from a set in '
    'which the probe bytes C3 A4 decode to pairwise different strings, so the encoding actually used is observable in the '
    'DOM. Depth 1 is enumerated exhaustively, deeper chains are generated. Oracle: reference ladder (override > transport > '
    'BOM/@charset > referring sheet > UTF-8; the override governs every nested import) gives the expected encoding of every '
    'sheet: compared with sheet.encoding, the decoded probe and the fetch log (every target requested). entry: the same for '
    'parseString(bytes, encoding=), parseUrl and parseFile. target: DOMs from the C02 generator and/or generated pieces that put words '
    'over Latin-1 / Cyrillic / CJK / astral / NBSP / U+2028 / lone-surrogate and other hex escapes into class, id, type, string, url, '
    'comment, attribute value, font family, property name, at-keyword, @import, @namespace, @media comment and page name positions x '
    'sheet.encoding = ascii / latin-1 / koi8-r / shift_jis / utf-8 / utf-16 / cp1252: encoding equals the @charset rule, '
    'cssText decodes in it, reparses to the same projection, nothing raises. boms: five sheets (non-ASCII strings, @import, comment, '
    '@namespace, @media) encoded with each of the five byte order marks (UTF-8, UTF-16 LE/BE, UTF-32 LE/BE) entering through '
    'parseString(bytes), parseUrl, parseFile and as an @import target of a sheet with and without its own @charset: the rules must be '
    'those of the text, the reported encoding must equal the @charset rule, the serialisation must reparse to the same rules. Non-trivial: two sources of encoding '
    'information disagree, the chain has depth >= 2, or the content has a character outside the target encoding; distinct '
    'by row / (DOM, encoding).'
    ' boms also: an import without information of its own inherits the encoding of a referring sheet that was parsed from bytes with a UTF-16/32 byte order mark.'
)
ASSUMPTIONS = [
    'encoding names are compared through codecs.lookup; utf-8-sig and utf-8 count as equal',
    'Python codecs decode the probe bytes (oracle for "which encoding was used")',
    'a missing import target (fetcher returns None / (None, None)) must leave an empty, unresolved imported sheet and raise nothing',
]

PROBE = b'\xc3\xa4'
ENCS = ['latin-1', 'koi8-r', 'cp1251', 'iso-8859-5', 'cp437', 'iso-8859-2']
assert len({PROBE.decode(e) for e in ENCS + ['utf-8']}) == len(ENCS) + 1


def canon(e):
    if e is None:
        return None
    n = codecs.lookup(e).name
    return 'utf-8' if n == 'utf-8-sig' else n


def level_content(level, nxt):
    """bytes or text of one sheet of the chain"""
    kind = level['content']
    head = ''
    if kind.startswith('charset:'):
        head = '@charset "%s";' % kind[8:]
    body = head + ('@import "l%d.css";' % nxt if nxt else '') + 'a { content: "'
    tail = '" }'
    raw = (b'\xef\xbb\xbf' if kind == 'bom' else b'') + body.encode('ascii') + PROBE + tail.encode('ascii')
    return raw


def ladder(levels, override, top):
    """expected encoding per level; levels[0] is the first imported sheet; top = (kind, delivery)"""
    out = []
    # top level sheet
    if override:
        parent = override
        parent_known = True
    elif top.get('transport'):
        parent = top['transport']
        parent_known = True
    elif top['content'].startswith('charset:') :
        parent = top['content'][8:]
        parent_known = True
    elif top['content'] == 'bom' and top['delivery'] == 'bytes':
        parent, parent_known = 'utf-8', False
    else:
        parent, parent_known = 'utf-8', False
    top_enc = parent
    for lv in levels:
        if override:
            enc, known = override, True
        elif lv['transport']:
            enc, known = lv['transport'], True
        elif lv['content'] == 'bom' and lv['delivery'] == 'bytes':
            enc, known = 'utf-8', True
        elif lv['content'].startswith('charset:'):
            enc, known = lv['content'][8:], True
        elif parent_known:
            enc, known = parent, True
        else:
            enc, known = 'utf-8', False
        out.append(enc)
        parent, parent_known = enc, known
    return top_enc, out


def run_chain(case, ctx):
    levels, override, top = case['levels'], case['override'], case['top']
    log = []
    contents = {}
    for i, lv in enumerate(levels):
        contents['http://h/l%d.css' % (i + 1)] = (lv, level_content(lv, i + 2 if i + 1 < len(levels) else 0))

    def fetcher(url):
        log.append(url)
        if url not in contents:
            return None
        lv, raw = contents[url]
        if lv['result'] == 'none':
            return None
        if lv['result'] == 'pair-none':
            return (None, None)
        if lv['delivery'] == 'text':
            # text delivery: the server side already decoded it (as UTF-8)
            return (lv['transport'], raw.decode('utf-8-sig' if lv['content'] == 'bom' else 'utf-8'))
        return (lv['transport'], raw)

    top_raw = level_content(top, 1)
    exp_top, exp = ladder(levels, override, top)
    saved = cssutils.log.raiseExceptions
    cssutils.log.raiseExceptions = False
    try:
        try:
            p = cssutils.CSSParser(fetcher=fetcher)
            if top.get('entry') == 'parseUrl':
                contents['http://h/main.css'] = ({'result': 'data', 'delivery': top['delivery'], 'transport': top.get('transport'), 'content': top['content']}, top_raw)
                sheet = p.parseUrl('http://h/main.css', encoding=override)
                log.remove('http://h/main.css')
                if sheet is None:
                    ctx.event('top-level-undecodable')
                    return None
            elif top['delivery'] == 'text':
                sheet = p.parseString(top_raw.decode('utf-8-sig' if top['content'] == 'bom' else 'utf-8'), encoding=override, href='http://h/main.css')
            else:
                sheet = p.parseString(top_raw, encoding=override, href='http://h/main.css')
        except (UnicodeDecodeError, LookupError) as e:
            if type(e) in (UnicodeDecodeError, LookupError):
                ctx.event('top-level-undecodable')
                return None
            raise Violation('crash:parse:' + frame_sig(e), repr(e))
        except Exception as e:  # noqa: BLE001
            raise Violation('crash:parse:' + frame_sig(e), f'{case}: {e!r}')
        if canon(sheet.encoding) != canon(exp_top):
            raise Violation('ladder:top-level-encoding', f'{case}: sheet.encoding {sheet.encoding!r}, expected {exp_top!r}')
        cur = sheet
        if top['content'] == 'bom' and top['delivery'] == 'bytes' and canon(exp_top) != 'utf-8':
            ctx.event('bom-decoded-as-text')
            return sheet
        for i, lv in enumerate(levels):
            irules = [r for r in cur.cssRules if r.type == r.IMPORT_RULE]
            if len(irules) != 1:
                raise Violation('ladder:import-rule-lost', f'{case}: level {i + 1}: {cur.cssText!r}')
            imp = irules[0].styleSheet
            url = 'http://h/l%d.css' % (i + 1)
            if log.count(url) < 1:
                raise Violation('fetch:target-never-requested', f'{case}: {url}: {log}')
            ctx.event('fetches:%d' % log.count(url))
            if lv['result'] != 'data':
                if imp is not None and imp.cssRules.length:
                    raise Violation('ladder:rules-from-missing-target', f'{case}')
                break
            if imp is None:
                raise Violation('ladder:imported-sheet-missing', f'{case}: level {i + 1}')
            if canon(imp.encoding) != canon(exp[i]):
                raise Violation('ladder:imported-sheet-encoding', f'{case}: level {i + 1}: reported {imp.encoding!r}, ladder says {exp[i]!r}')
            if lv['content'] == 'bom' and lv['delivery'] == 'bytes' and canon(exp[i]) != 'utf-8':
                # the BOM bytes decode to three characters of the governing encoding which merge with the first statement
                ctx.event('bom-decoded-as-text')
                break
            srules = [r for r in imp.cssRules if r.type == r.STYLE_RULE]
            if len(srules) != 1:
                raise Violation('ladder:imported-rule-lost', f'{case}: level {i + 1}: {imp.cssText!r}')
            got = srules[0].style.getProperty('content').propertyValue[0].value
            if lv['delivery'] == 'text':
                want = PROBE.decode('utf-8')
            else:
                want = PROBE.decode(exp[i])
            if got != want:
                used = [e for e in ENCS + ['utf-8'] if PROBE.decode(e) == got]
                raise Violation('ladder:decoded-with-other-encoding', f'{case}: level {i + 1}: probe decoded as {got!r} (= {used}), ladder says {exp[i]!r}')
            # reported encoding equals the @charset rule of that sheet
            crule = imp.cssRules[0] if imp.cssRules.length and imp.cssRules[0].type == imp.cssRules[0].CHARSET_RULE else None
            if canon(imp.encoding) != canon(crule.encoding if crule is not None else 'utf-8'):
                raise Violation('ladder:encoding-differs-from-charset-rule', f'{case}: level {i + 1}: {imp.encoding!r} vs rule {crule and crule.encoding!r}')
            cur = imp
        return sheet
    finally:
        cssutils.log.raiseExceptions = saved


LEVEL = st.fixed_dictionaries({
    'transport': st.sampled_from([None, None] + ENCS[:3]),
    'content': st.sampled_from(['none', 'bom'] + ['charset:' + e for e in ENCS[2:5]]),
    'delivery': st.sampled_from(['bytes', 'bytes', 'text']),
    'result': st.sampled_from(['data', 'data', 'data', 'data', 'none', 'pair-none']),
})
TOP = st.fixed_dictionaries({'content': st.sampled_from(['none', 'bom', 'charset:' + ENCS[5], 'charset:' + ENCS[0]]),
                             'delivery': st.sampled_from(['bytes', 'text']), 'entry': st.sampled_from(['parseString', 'parseString', 'parseUrl']),
                             'transport': st.sampled_from([None, None, ENCS[3]])}).map(
    lambda t: t if t['entry'] == 'parseUrl' else {**t, 'transport': None})
chain_strategy = st.fixed_dictionaries({
    'levels': st.lists(LEVEL, min_size=2, max_size=3),
    'override': st.sampled_from([None, None, ENCS[1], ENCS[4]]),
    'top': TOP,
})


def depth1_cases(tier):
    for override in (None, ENCS[1]):
        for transport in (None, ENCS[0]):
            for content in ('none', 'bom', 'charset:' + ENCS[2]):
                for parent in ('none', 'charset:' + ENCS[3], 'bom'):
                    for delivery in ('bytes', 'text'):
                        for pdel in ('bytes', 'text'):
                            for result in ('data', 'none', 'pair-none'):
                                yield {'levels': [{'transport': transport, 'content': content, 'delivery': delivery, 'result': result}],
                                       'override': override, 'top': {'content': parent, 'delivery': pdel}}


def check_chain(case, ctx):
    sheet = run_chain(case, ctx)
    if sheet is None:
        return
    lv = case['levels']
    sources = [bool(case['override']), any(x['transport'] for x in lv), any(x['content'] != 'none' for x in lv), case['top']['content'] != 'none']
    ctx.event('depth:%d' % len(lv))
    ctx.case(case, sum(sources) >= 2 or len(lv) >= 2, case)


# --------------------------------------------------------------------------- entry points


def entry_cases(tier):
    for entry in ('parseString', 'parseUrl', 'parseFile'):
        for override in (None, ENCS[1]):
            for transport in ((None, ENCS[0]) if entry == 'parseUrl' else (None,)):
                for content in ('none', 'bom', 'charset:' + ENCS[2]):
                    yield {'entry': entry, 'override': override, 'transport': transport, 'content': content}


def check_entry(case, ctx):
    raw = level_content({'content': case['content']}, 0)
    if case['override']:
        exp = case['override']
    elif case['transport']:
        exp = case['transport']
    elif case['content'] == 'bom':
        exp = 'utf-8'
    elif case['content'].startswith('charset:'):
        exp = case['content'][8:]
    else:
        exp = 'utf-8'
    saved = cssutils.log.raiseExceptions
    cssutils.log.raiseExceptions = False
    tmp = None
    try:
        try:
            if case['entry'] == 'parseString':
                sheet = cssutils.CSSParser().parseString(raw, encoding=case['override'])
            elif case['entry'] == 'parseUrl':
                sheet = cssutils.CSSParser(fetcher=lambda u: (case['transport'], raw)).parseUrl('http://h/x.css', encoding=case['override'])
            else:
                work = os.path.join(VERIF, '.work')
                os.makedirs(work, exist_ok=True)
                fd, tmp = tempfile.mkstemp(suffix='.css', dir=work)
                with os.fdopen(fd, 'wb') as f:
                    f.write(raw)
                sheet = cssutils.CSSParser().parseFile(tmp, encoding=case['override'])
        except Exception as e:  # noqa: BLE001
            raise Violation('crash:' + case['entry'] + ':' + frame_sig(e), f'{case}: {e!r}')
        if sheet is None:
            raise Violation('entry:no-sheet', str(case))
        if canon(sheet.encoding) != canon(exp):
            raise Violation('entry:encoding', f'{case}: {sheet.encoding!r}, expected {exp!r}')
        if case['content'] == 'bom' and canon(exp) != 'utf-8':
            ctx.event('bom-decoded-as-text')
            got = PROBE.decode(exp)
        else:
            got = [r for r in sheet.cssRules if r.type == r.STYLE_RULE][0].style.getProperty('content').propertyValue[0].value
        if got != PROBE.decode(exp):
            raise Violation('entry:decoded-with-other-encoding', f'{case}: {got!r}, expected {PROBE.decode(exp)!r}')
        ser = sheet.cssText
        try:
            ser.decode(sheet.encoding)
        except UnicodeDecodeError as e:
            raise Violation('target:serialisation-not-decodable', f'{case}: {e}')
    finally:
        cssutils.log.raiseExceptions = saved
        if tmp and os.path.exists(tmp):
            os.unlink(tmp)
    ctx.case(case, bool(case['override'] or case['transport']) and case['content'] != 'none', case)


# --------------------------------------------------------------------------- serialisation in a target encoding

TARGETS = ['ascii', 'latin-1', 'koi8-r', 'shift_jis', 'utf-8', 'utf-16', 'cp1252', 'UTF-8', 'x-nope']
EXTRA = ['.é { content: "€ 中 \U0001F600"; background: url(ä/ö.png) } /* комментарий */ #中 > .x-é::before { font-family: "Ж" }',
         'a { content: "\\d800 x" }', '@import "é.css"; @namespace п "http://п.example"; п|a { top: 0 }', '@é-rule "中"; .a[title="ü"] { top: 0 }', '']
CHARS = ['é', 'ü', 'ÿ', 'ß', 'Ж', 'я', '中', '€', '\U0001F600', '\U00100000', '\U0010FFFF', '\uffff', '\u00a0', '\u2028', '\u0100', 'ｱ',
         'a', 'f', 'z', '0', '9', '-', '_']
TEXTONLY = [' ', ' ', '\t', '\x7f', '(', "'", ';', '{']
ESCAPED = ['\\d800 ', '\\dfff ', '\\E9 ', '\\20AC ', '\\1F600 ', '\\10FFFF ', '\\a0 ']
word = st.lists(st.one_of(st.sampled_from(CHARS), st.sampled_from(CHARS), st.sampled_from(ESCAPED), st.sampled_from(TEXTONLY)),
                min_size=1, max_size=5)
POSITIONS = ['class', 'id', 'type', 'string', 'url', 'comment', 'attr', 'family', 'propname', 'atkw', 'import', 'nsuri', 'media-comment', 'page-name']


def render_piece(pos, atoms, n):
    ident = ''.join(a for a in atoms if a not in TEXTONLY) or 'k'
    if ident[0] in '0123456789-':
        ident = 'x' + ident
    txt = ''.join(atoms)
    ctxt = ''.join(a for a in atoms if a not in ESCAPED)  # comments are not escape-decoded consistently (see C03 assumptions)
    return {
        'class': '.c%s { top: %d }' % (ident, n),
        'id': '#i%s { top: %d }' % (ident, n),
        'type': 'e%s { top: %d }' % (ident, n),
        'string': 'a { content: "%s"; x-n: %d }' % (txt, n),
        'url': 'a { background: url("%s"); x-n: %d }' % (txt, n),
        'comment': '/* %s */ a { x-n: %d }' % (ctxt, n),
        'attr': 'a[title="%s"] { x-n: %d }' % (txt, n),
        'family': 'a { font-family: f%s, "%s"; x-n: %d }' % (ident, txt, n),
        'propname': 'a { x-%s: %d }' % (ident, n),
        'atkw': '@x-%s "%s";' % (ident, txt),
        'import': '@import "%s";' % txt,
        'nsuri': '@namespace n%d "%s";' % (n, txt),
        'media-comment': '@media print { /* %s */ b { x-n: %d } }' % (ctxt, n),
        'page-name': '@page p%s { x-n: %d }' % (ident, n),
    }[pos]


target_strategy = st.fixed_dictionaries({
    'model': st.one_of(st.none(), st.none(), A.sheet(max_body=3)), 'seed': st.integers(0, 2 ** 30), 'extra': st.integers(0, len(EXTRA) - 1),
    'pieces': st.lists(st.tuples(st.sampled_from(POSITIONS), word), max_size=4),
    'target': st.sampled_from(TARGETS), 'second': st.sampled_from([None] + TARGETS),
})


def pieces_text(pieces):
    order = {'import': 0, 'nsuri': 1}
    ps = sorted(enumerate(pieces), key=lambda x: (order.get(x[1][0], 2), x[0]))
    return '\n'.join(render_piece(pos, w, n) for n, (pos, w) in ps)


def check_target(case, ctx):
    text = EXTRA[case['extra']]
    if case['model'] is not None:
        m = case['model']
        m['stmts'] = [s for s in m['stmts'] if s['k'] != 'charset']
        flatten_nested_comments(m['stmts'])
        text = A.render_sheet(m, case['seed']) + text
    if case.get('pieces'):
        pt = pieces_text([(x[0], list(x[1])) for x in case['pieces']])
        # @import / @namespace pieces must stay in front
        text = pt + '\n' + text if case['model'] is None else text + '\n' + '\n'.join(
            l for l in pt.split('\n') if not l.startswith(('@import', '@namespace')))
    saved = cssutils.log.raiseExceptions
    cssutils.log.raiseExceptions = False
    try:
        try:
            sheet = cssutils.CSSParser(fetcher=lambda u: (None, '')).parseString(text)
            before = P.p_sheet(sheet, resolved=True)
            for tgt in (case['target'], case['second']):
                if tgt is None:
                    continue
                old = sheet.encoding
                sheet.encoding = tgt
                known = True
                try:
                    codecs.lookup(tgt)
                except LookupError:
                    known = False
                if not known and canon(sheet.encoding) != canon(old):
                    raise Violation('target:unknown-encoding-accepted', f'{tgt!r}: {sheet.encoding!r}')
                if known and canon(sheet.encoding) != canon(tgt):
                    raise Violation('target:encoding-not-set', f'{tgt!r}: {sheet.encoding!r}')
            enc = sheet.encoding
            crule = sheet.cssRules[0] if sheet.cssRules.length and sheet.cssRules[0].type == sheet.cssRules[0].CHARSET_RULE else None
            if canon(enc) != canon(crule.encoding if crule is not None else 'utf-8'):
                raise Violation('target:encoding-differs-from-charset-rule', f'{enc!r} vs {crule and crule.encoding!r}')
            with Prefs(**LOSSLESS):
                ser = sheet.cssText
        except Violation:
            raise
        except Exception as e:  # noqa: BLE001
            raise Violation('crash:target:' + frame_sig(e), f'{text[:200]!r} -> {case["target"]}/{case["second"]}: {e!r}')
        if not isinstance(ser, bytes):
            raise Violation('target:cssText-not-bytes', repr(type(ser)))
        try:
            decoded = ser.decode(enc)
        except UnicodeDecodeError as e:
            raise Violation('target:serialisation-not-decodable', f'{text[:200]!r} in {enc}: {e}')
        try:
            re_ = cssutils.CSSParser(fetcher=lambda u: (None, '')).parseString(ser)
            after = P.p_sheet(re_, resolved=True)
        except Exception as e:  # noqa: BLE001
            raise Violation('crash:target-reparse:' + frame_sig(e), f'{ser[:200]!r}: {e!r}')
        strip = lambda p: tuple(x for x in p if x[0] != 'charset')  # noqa: E731
        if drop_empty(strip(after)) != drop_empty(strip(before)):
            raise Violation('target:reparse-differs', f'{text[:200]!r} in {enc}: {P.first_diff(drop_empty(strip(after)), drop_empty(strip(before)))}')
        if canon(re_.encoding) != canon(enc):
            raise Violation('target:reparsed-encoding', f'{re_.encoding!r} vs {enc!r}')
    finally:
        cssutils.log.raiseExceptions = saved
    try:
        text.encode(enc)
        outside = False
    except (UnicodeEncodeError, LookupError):
        outside = True
    ctx.event('target:' + canon(enc))
    ctx.case([text, case['target'], case['second']], outside, {'source': text[:200], 'encoding': enc, 'serialised': decoded[:200]})


SUBS = [
    Sub('depth1', check_chain, enumerate=depth1_cases, shards_quick=8, shards_thorough=16),
    Sub('chain', check_chain, strategy=chain_strategy, quick=2000, thorough=100000, shards_quick=8),
    Sub('entry', check_entry, enumerate=entry_cases, shards_quick=2, shards_thorough=2),
    Sub('target', check_target, strategy=target_strategy, quick=1500, thorough=100000, shards_quick=8),
]


# --------------------------------------------------------------------------- listed findings (own signatures)

LISTED = [
    ('escaped-non-ascii-destroyed', r'a{content:"\ä"} .\ä{top:0}', 'ascii'),
    ('codec-not-injective', 'a{content:"¥ ‾"}', 'shift_jis'),
]


def listed_cases(tier):
    for tag, text, enc in LISTED:
        yield {'tag': tag, 'text': text, 'enc': enc}


def check_listed(case, ctx):
    saved = cssutils.log.raiseExceptions
    cssutils.log.raiseExceptions = False
    try:
        with Prefs(**LOSSLESS):
            sheet = cssutils.parseString(case['text'])
            before = P.p_sheet(sheet, resolved=True)
            sheet.encoding = case['enc']
            data = sheet.cssText
            after = P.p_sheet(cssutils.parseString(data), resolved=True)
    finally:
        cssutils.log.raiseExceptions = saved
    ctx.case([case['text'], case['enc']], True, case)
    strip = lambda p: tuple(x for x in p if x[0] != 'charset')  # noqa: E731
    if strip(after) != strip(before):
        raise Violation('listed:' + case['tag'], f'{case["text"]!r} in {case["enc"]}: written {data!r}; {P.first_diff(strip(after), strip(before))}')


SUBS.append(Sub('listed', check_listed, enumerate=listed_cases, shards_quick=1, shards_thorough=1))


# --------------------------------------------------------------------------- every byte order mark, through every way bytes enter

BOM_FLAVOURS = {
    'utf-8': (codecs.BOM_UTF8, 'utf-8', 'utf-8'),
    'utf-16-le': (codecs.BOM_UTF16_LE, 'utf-16-le', 'utf-16'),
    'utf-16-be': (codecs.BOM_UTF16_BE, 'utf-16-be', 'utf-16'),
    'utf-32-le': (codecs.BOM_UTF32_LE, 'utf-32-le', 'utf-32'),
    'utf-32-be': (codecs.BOM_UTF32_BE, 'utf-32-be', 'utf-32'),
}
BOM_BODIES = ['a { content: "\xe4€" }', '@import "leaf.css"; a { content: "\xe4" }', '/* Ж */ a { content: "中" } b { top: 0 }',
              '@namespace p "http://p.example/\xe9"; p|a { top: 0 }', '@media print { a { content: "\xdf" } }']


def bom_cases(tier):
    for flavour in sorted(BOM_FLAVOURS):
        for entry in ('parseString', 'parseUrl', 'import', 'parseFile'):
            for parent in ('none', 'charset:koi8-r'):
                for body in range(len(BOM_BODIES)):
                    if parent != 'none' and entry != 'import':
                        continue
                    yield {'flavour': flavour, 'entry': entry, 'parent': parent, 'body': body}


def check_bom(case, ctx):
    bom, enc, family = BOM_FLAVOURS[case['flavour']]
    text = BOM_BODIES[case['body']]
    data = bom + text.encode(enc)
    leaf = 'leaf { left: 0 }'

    def fetcher(url):
        if url.endswith('leaf.css'):
            return None, leaf
        if url.endswith('target.css'):
            return None, data
        return None

    saved = cssutils.log.raiseExceptions
    cssutils.log.raiseExceptions = False
    try:
        with lib('bom-entry'):
            p = cssutils.CSSParser(fetcher=fetcher)
            ref = cssutils.CSSParser(fetcher=fetcher).parseString(text, href='http://h/target.css')
            if case['entry'] == 'parseString':
                sheet = p.parseString(data, href='http://h/target.css')
            elif case['entry'] == 'parseUrl':
                sheet = p.parseUrl('http://h/target.css')
            elif case['entry'] == 'parseFile':
                with tempfile.TemporaryDirectory() as d:
                    fn = os.path.join(d, 'target.css')
                    with open(fn, 'wb') as f:
                        f.write(data)
                    sheet = p.parseFile(fn, href='http://h/target.css')
            else:
                head = '@charset "koi8-r";' if case['parent'] != 'none' else ''
                top = p.parseString(head + '@import "target.css";', href='http://h/main.css')
                rules = [r for r in top.cssRules if r.type == r.IMPORT_RULE]
                sheet = rules[0].styleSheet if rules else None
            if sheet is None:
                raise Violation('bom:sheet-missing', f'{case}')
            got = [(r.type, r.cssText if r.type != r.IMPORT_RULE else r.href) for r in sheet.cssRules if r.type != r.CHARSET_RULE]
            want = [(r.type, r.cssText if r.type != r.IMPORT_RULE else r.href) for r in ref.cssRules]
            if got != want:
                raise Violation('bom:content-differs-from-the-text', f'{case}: rules {got} from the bytes, {want} from the text')
            if case['entry'] in ('parseString', 'parseFile'):
                # a sheet imported by it that says nothing about its own encoding is in the encoding of the referring sheet
                kid = 'kid { content: "\u0436\u20ac" }'
                p2 = cssutils.CSSParser(fetcher=lambda u: (None, kid.encode(enc)) if u.endswith('kid.css') else None)
                top = p2.parseString(bom + ('@import "kid.css"; ' + text).encode(enc), href='http://h/target.css')
                imp = [r for r in top.cssRules if r.type == r.IMPORT_RULE and r.href == 'kid.css']
                ks = imp[0].styleSheet if imp else None
                texts = [r.cssText for r in ks.cssRules if r.type == r.STYLE_RULE] if ks is not None else None
                if texts != ['kid {\n    content: "\u0436\u20ac"\n    }']:
                    raise Violation('bom:import-does-not-inherit-the-encoding-of-the-referring-sheet', f'{case}: imported sheet gives {texts}')
            if case['entry'] == 'import' and canon(sheet.encoding) not in (canon(family), canon(enc)):
                raise Violation('bom:reported-encoding', f'{case}: {sheet.encoding!r}')
            crule = sheet.cssRules[0] if sheet.cssRules.length and sheet.cssRules[0].type == sheet.cssRules[0].CHARSET_RULE else None
            if canon(sheet.encoding) != canon(crule.encoding if crule is not None else 'utf-8'):
                raise Violation('bom:encoding-differs-from-charset-rule', f'{case}: {sheet.encoding!r} vs rule {crule and crule.encoding!r}')
            out = sheet.cssText
            back = cssutils.CSSParser(fetcher=fetcher).parseString(out, href='http://h/target.css')
            got2 = [(r.type, r.cssText if r.type != r.IMPORT_RULE else r.href) for r in back.cssRules if r.type != r.CHARSET_RULE]
            if got2 != want:
                raise Violation('bom:serialisation-not-lossless', f'{case}: {out[:120]!r} -> {got2}')
    finally:
        cssutils.log.raiseExceptions = saved
    ctx.event('bom:' + case['flavour'])
    ctx.event('entry:' + case['entry'])
    ctx.case([case['flavour'], case['entry'], case['parent'], case['body']], True, {'case': case, 'bytes': data[:40].hex()})


SUBS.append(Sub('boms', check_bom, enumerate=bom_cases, shards_quick=4, shards_thorough=4))


from vlib.reported import reported_sub  # noqa: E402

SUBS.append(reported_sub('C08'))
