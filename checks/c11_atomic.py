"""C11 — a rejected DOM mutation changes nothing."""

import xml.dom

from hypothesis import strategies as st

import cssutils
from cssutils import css, stylesheets
from vlib.runner import Sub, Violation, frame_sig

PROPERTY = 'C11'
RULE = (
    'table: every public mutator of every DOM class (text setters of sheet, style / media / page / font-face / import / '
    'namespace / charset / unknown / comment rules, declaration block, property cssText / name / value / priority, '
    'PropertyValue.cssText, Selector.selectorText, SelectorList selectorText / append / item assignment, MediaList '
    'mediaText / append / delete / item assignment, MediaQuery mediaText / mediaType, insertRule / add / deleteRule on '
    'sheet, @media and @page, namespace mapping set / delete, encoding, namespace prefix / URI) x arguments rejected at '
    'every stage (immediately: wrong rule type, bad index; after part of the new content was accepted: valid prefix + late '
    'error; in a nested object) x 3 prior states, optionally after 0..3 accepted edits; raising mode. Oracle: if the call '
    'raises an xml.dom.DOMException, the snapshot (serialisation of target / owner rule / sheet, rule type list, property '
    'tuples, selector texts, media items, namespace mapping and the identity of the mapping object, parent links) is equal '
    'before and after, and a following valid operation gives the same result as on an untouched copy. readonly: every '
    'class created read-only rejects every mutator with NoModificationAllowedErr and stays equal. Non-trivial: the '
    'rejected argument has an acceptable prefix (late rejection) or targets a nested object; distinct by (mutator, '
    'argument, state).'
    ' Rows also: @import rule text / href / object insertion whose fetched target is refused in raising mode, rule lists built from objects, a second prefix for a declared URI; property rows under restricted default profiles; a read-only URIValue.'
)
ASSUMPTIONS = [
    'only calls that raise xml.dom.DOMException are in scope; an accepted call or another exception type is classified separately (crash = reported)',
    'arguments listed as late=True have a non-empty acceptable prefix',
    'plain data attributes without a setter (CSSMediaRule.name) are not counted as mutators of a read-only object; objects that merely belong to a read-only object (a Property of a read-only block) are not themselves "created read-only"',
    'the snapshot serialises three times: lossless preferences, variables resolved, default preferences (a part that silently stopped being well-formed vanishes there)',
]

BASES = [
    '@charset "utf-8"; @import "i.css" print; @namespace p "http://p.example"; /* c */ a, p|b > c { color: red; margin: 1px 2px !important } '
    '@media print, tv { d { top: 0 } @page { margin: 0 } } @page :first { margin: 1cm; @top-left { content: "x" } } '
    '@font-face { font-family: "F"; src: url(f.woff) } @foo bar;',
    'x { top: 0 } y z { left: 1px; color: blue }',
    '@namespace "http://d.example"; @media all { e { top: 0 } } f[g="h"]::before { content: "i" }',
    'v { color: rgb(1, 2, 3); width: 1px; background: url(x.png) #fff; content: "s" attr(t); margin: calc(1px + 2px) var(m) } '
    '@media /*c*/ all { w { top: 0 } } @media tv, print and (color) { u { left: 0 } }',
]


def fetcher(url):
    if url.endswith('broken.css'):
        return (None, 'broken { top: 0 } ,, { left: 0 } @import "too-late.css";')
    return (None, '')


def walk(rules):
    for r in rules:
        yield r
        if r.type in (r.MEDIA_RULE, r.PAGE_RULE):
            yield from walk(r.cssRules)


def first(sheet, typ):
    return next((r for r in walk(sheet.cssRules) if r.type == typ), None)


R = css.CSSRule


def snapshot(sheet):
    saved = {k: getattr(cssutils.ser.prefs, k) for k in ('keepEmptyRules', 'resolveVariables')}
    cssutils.ser.prefs.keepEmptyRules = True
    cssutils.ser.prefs.resolveVariables = False
    try:
        out = [sheet.cssText, sheet.encoding, tuple(sorted(dict(sheet.namespaces.items()).items())), type(sheet.namespaces).__name__]
        cssutils.ser.prefs.resolveVariables = True
        out.append(sheet.cssText)
        cssutils.ser.prefs.resolveVariables = False
        cssutils.ser.prefs.keepEmptyRules = False
        out.append(sheet.cssText)  # what an ordinary serialisation shows (a part that stopped being well-formed disappears here)
        cssutils.ser.prefs.keepEmptyRules = True
        for r in walk(sheet.cssRules):
            item = [r.type, r.cssText, r.parentStyleSheet is sheet, None if r.parentRule is None else r.parentRule.type]
            if r.type == R.STYLE_RULE:
                item.append(tuple(s.selectorText for s in r.selectorList))
                item.append(r.selectorList.length)
            if hasattr(r, 'style') and r.type != R.COMMENT:
                item.append(tuple((p.literalname, p.name, p.value, p.priority, p.cssText) for p in r.style.getProperties(all=True)))
                item.append(r.style.length)
            if r.type in (R.MEDIA_RULE, R.IMPORT_RULE):
                item.append((r.media.mediaText, r.media.length, tuple(r.media[i].mediaText for i in range(len(r.media)))))
            if r.type == R.IMPORT_RULE:
                item.append((r.href, r.name))
            if r.type == R.NAMESPACE_RULE:
                item.append((r.prefix, r.namespaceURI))
            if r.type == R.PAGE_RULE:
                item.append(r.selectorText)
            out.append(tuple(item))
        return out
    finally:
        for k, v in saved.items():
            setattr(cssutils.ser.prefs, k, v)


# (name, locate, call, [(argument, late)])
def M():
    style = lambda s: first(s, R.STYLE_RULE)  # noqa: E731
    media = lambda s: first(s, R.MEDIA_RULE)  # noqa: E731
    page = lambda s: first(s, R.PAGE_RULE)  # noqa: E731
    prop = lambda s: style(s).style.getProperties(all=True)[0]  # noqa: E731
    sel = lambda s: style(s).selectorList[0]  # noqa: E731

    def setter(attr):
        return lambda t, a: setattr(t, attr, a)

    return [
        ('sheet.cssText=', lambda s: s, setter('cssText'),
         [('a { top: 0 } zz|b { left: 0 }', True), ('a { top: 0 } @import "late.css";', True), ('a { top: 0 } b,,c { left: 0 }', True),
          ('@namespace q "u"; q|a { top: 0 } b { ( }', True), ('a {', False), ('@charset "utf-8"; a { top: 0 } @charset "ascii";', True),
          ('@variables { m: 1px; c: red } y { left: var(m) } @variables { b: 2px }', True)]),
        ('sheet.insertRule', lambda s: s, lambda t, a: t.insertRule(*a),
         [(('@import "x";', 99), False), (('a {', 0), False), (('@charset "utf-8";', 1), False), (('zz|a { top: 0 }', 0), False),
          (('a { top: 0 }', -1), False), (('@namespace n "u";', 99), False), (('a { top: 0 } b { left: 0 }', 0), True),
          (('@top-left { content: "x" }', 0), False)]),
        ('sheet.add', lambda s: s, lambda t, a: t.add(a), [('a,,b { top: 0 }', False), ('zz|a { top: 0 }', False), ('@media print and { a {} }', False)]),
        ('sheet.deleteRule', lambda s: s, lambda t, a: t.deleteRule(a), [(99, False), (-99, False)]),
        ('sheet.deleteRule(used namespace)', lambda s: s if first(s, R.NAMESPACE_RULE) is not None else None,
         lambda t, a: t.deleteRule(first(t, R.NAMESPACE_RULE)), [(None, False)]),
        ('sheet.encoding=', lambda s: s, setter('encoding'), [('x-nope', False), ('a b', False)]),
        ('namespaces[p]=', lambda s: s.namespaces, lambda t, a: t.__setitem__(*a), [(('p', 'http://other.example'), False), (('', 'http://other.example'), False), (('1x', 'http://n.example'), False)]),
        ('del namespaces[p]', lambda s: s.namespaces, lambda t, a: t.__delitem__(a), [('zz', False), ('p', False), ('', False)]),
        ('styleRule.cssText=', style, setter('cssText'),
         [('a, b,, c { top: 0 }', True), ('a { top: 0', False), ('@media print { a {} }', False), ('a, zz|b { top: 0 }', True), ('a { top: 0 } b { left: 0 }', True), ('', False)]),
        ('styleRule.selectorText=', style, setter('selectorText'), [('a, b, zz|c', True), ('a,,b', True), ('a b >', True), ('', False), ('a { }', True)]),
        ('selectorList.selectorText=', lambda s: style(s).selectorList, setter('selectorText'), [('a, b, zz|c', True), ('a, b,', True), ('1a', False)]),
        ('selectorList.appendSelector', lambda s: style(s).selectorList, lambda t, a: t.appendSelector(a), [('zz|c', False), ('a,,b', True), ('a:::b', True), ('x, y', True)]),
        ('selectorList[0]=', lambda s: style(s).selectorList, lambda t, a: t.__setitem__(0, a), [('zz|c', False), ('a >', True)]),
        ('selector.selectorText=', sel, setter('selectorText'), [('a b,', True), ('zz|c', False), ('a[b', True), ('a:not(b c)', True)]),
        ('style.cssText=', lambda s: style(s).style, setter('cssText'), [('top: 0; left: (', True), ('top: 0; : x', True), ('top: 0; color: red ! nope', True)]),
        ('style.setProperty', lambda s: style(s).style, lambda t, a: t.setProperty(*a), [(('color', '('), False), (('1x', 'red'), False), (('color', 'red', 'nope'), True), (('color', 'a b !'), True)]),
        ('style[name]=', lambda s: style(s).style, lambda t, a: t.__setitem__(*a), [(('color', ')'), False), (('top', ('1px', 'nope')), True)]),
        ('property.cssText=', prop, setter('cssText'), [('left: (', True), ('left 1px', True), (': x', False), ('left: 1px ! nope', True), ('left: 1px; top: 0', True),
                                                        # fine, but only valid in a profile outside restricted default profiles: a warning, no refusal
                                                        ('opacity: 0.25', False), ('src: url(x.woff)', False)]),
        ('property.name=', prop, setter('name'), [('1x', False), ('a b', True), ('', False)]),
        ('property.value=', prop, setter('value'), [('(', False), ('1px (', True), ('a ! b', True)]),
        ('property.priority=', prop, setter('priority'), [('nope', False), ('! nope', True), ('important x', True)]),
        ('propertyValue.cssText=', lambda s: prop(s).propertyValue, setter('cssText'), [('1px (', True), (')', False), ('a,,b', True), ('rgb(1,2', True)]),
        ('value[0].cssText=', lambda s: prop(s).propertyValue[0], setter('cssText'),
         [('rgb(1, 50%, 3)', True), ('hsl(120, 2, 3)', True), ('rgba(10%, 20%, 30%, 40%)', True), ('rgb(1,2', True), ('1px 2px', True), ('(', False), ('', False)]),
        ('value[1].cssText=', lambda s: style(s).style.getProperties(all=True)[1].propertyValue[0], setter('cssText'),
         [('1px 2px', True), ('red', False), ('1 px', True), ('(', False)]),
        ('uri-value.cssText=', lambda s: style(s).style.getProperties(all=True)[2].propertyValue[0], setter('cssText'),
         [('url(a b)', True), ('url(', False), ('red', False), ('url(x) y', True)]),
        ('calc-value.cssText=', lambda s: style(s).style.getProperties(all=True)[4].propertyValue[0], setter('cssText'),
         [('calc(1px +)', True), ('calc(1px+2px)', True), ('calc(', False), ('f(1)', False)]),
        ('var-value.cssText=', lambda s: style(s).style.getProperties(all=True)[4].propertyValue[1], setter('cssText'),
         [('var()', True), ('var(1)', True), ('var(a, )', True), ('x', False)]),
        ('function-value.cssText=', lambda s: style(s).style.getProperties(all=True)[3].propertyValue[1], setter('cssText'),
         [('attr(t', True), ('attr(t))', True), ('attr(;)', True), ('1px', False)]),
        ('mediaRule.cssText=', media, setter('cssText'),
         [('@media print and { a { top: 0 } }', True), ('@media tv { a { top: 0 } @import "x"; }', True), ('@media tv { a { top: 0 } b,,c { left: 0 } }', True),
          ('@media tv { a { top: 0 }', True), ('a { top: 0 }', False), ('@media tv { zz|a { top: 0 } }', True), ('@media tv, , print { a {} }', True),
          ('@media braille { b { color: blue } } c {}', True), ('@media braille "name" x { b {} }', True), ('@media braille "name" ;', True)]),
        ('mediaRule.insertRule', media, lambda t, a: t.insertRule(*a), [(('@import "x";', 0), False), (('a {', 0), False), (('a { top: 0 }', 99), False), (('@font-face { font-family: "F" }', 0), False)]),
        ('mediaRule.deleteRule', media, lambda t, a: t.deleteRule(a), [(99, False)]),
        ('media.mediaText=', lambda s: media(s).media, setter('mediaText'), [('tv, print and', True), ('tv, 1x', True), ('tv,, print', True), ('', False), ('tv and (color', True), ('/* only a comment */', False)]),
        ('media.appendMedium', lambda s: media(s).media, lambda t, a: t.appendMedium(a), [('1x', False), ('print and', True), ('tv, print', True), ('all', False), ('ALL', False), ('tv', False), ('print', False)]),
        ('media.deleteMedium', lambda s: media(s).media, lambda t, a: t.deleteMedium(a), [('braille', False), ('nope', False), ('print and (color)', False)]),
        ('media2.appendMedium', lambda s: [r for r in walk(s.cssRules) if r.type == R.MEDIA_RULE][1].media, lambda t, a: t.appendMedium(a),
         [('1x', False), ('tv and', True), ('all and', True)]),
        ('media2.mediaText=', lambda s: [r for r in walk(s.cssRules) if r.type == R.MEDIA_RULE][1].media, setter('mediaText'),
         [('tv, print and', True), ('all, 1x', True)]),
        ('media[0]=', lambda s: media(s).media, lambda t, a: t.__setitem__(0, a), [('print and', True), ('1x', False)]),
        ('mediaQuery.mediaText=', lambda s: media(s).media[0], setter('mediaText'), [('tv and', True), ('1x', False), ('tv and (color', True), ('tv print', True)]),
        ('mediaQuery.mediaType=', lambda s: media(s).media[0], setter('mediaType'), [('nope', False), ('1x', False)]),
        ('pageRule.cssText=', page, setter('cssText'), [('@page :first: { margin: 0 }', True), ('@page { margin: 0', True), ('a { top: 0 }', False), ('@page { margin: 0 } a { top: 0 }', True)]),
        ('pageRule.selectorText=', page, setter('selectorText'), [(':first:left:', True), ('a b', True), ('1x', False)]),
        ('pageRule.insertRule', page, lambda t, a: t.insertRule(*a), [(('a { top: 0 }', 0), False), (('@top-left { x: y }', 99), False), (('@media print { a {} }', 0), False)]),
        ('importRule.cssText=', lambda s: first(s, R.IMPORT_RULE), setter('cssText'), [('@import "x" print and;', True), ('@import;', False), ('@import "x" "y" "z";', True), ('a { }', False)]),
        ('namespaceRule.cssText=', lambda s: first(s, R.NAMESPACE_RULE), setter('cssText'), [('@namespace p;', True), ('@namespace 1x "u";', False), ('@namespace p "u" x;', True), ('a {}', False),
                                 ('@namespace q "http://other.example";', True)]),
        ('namespaceRule.namespaceURI=', lambda s: first(s, R.NAMESPACE_RULE), setter('namespaceURI'), [('http://other.example', False)]),
        ('namespaceRule.prefix=', lambda s: first(s, R.NAMESPACE_RULE), setter('prefix'), [('1x', False), ('a b', True)]),
        ('charsetRule.cssText=', lambda s: first(s, R.CHARSET_RULE), setter('cssText'), [('@charset "x-nope";', True), ('@charset utf-8;', False), ('@charset "utf-8"', True), ('a {}', False)]),
        ('charsetRule.encoding=', lambda s: first(s, R.CHARSET_RULE), setter('encoding'), [('x-nope', False), ('a b', False)]),
        ('fontFaceRule.cssText=', lambda s: first(s, R.FONT_FACE_RULE), setter('cssText'), [('@font-face { font-family: "F"', True), ('@font-face x { }', True), ('a {}', False)]),
        ('unknownRule.cssText=', lambda s: first(s, R.UNKNOWN_RULE), setter('cssText'), [('@foo { (', True), ('a {}', False), ('@foo bar', True)]),
        ('comment.cssText=', lambda s: first(s, R.COMMENT), setter('cssText'), [('/* unclosed', False), ('a {}', False), ('/* a */ /* b */', True)]),
        ('marginRule.cssText=', lambda s: first(s, R.MARGIN_RULE), setter('cssText'), [('@top-left { x: (', True), ('@nope { x: y }', False), ('a {}', False), ('@top-left {x:}', True)]),
        ('importMedia.mediaText=', lambda s: first(s, R.IMPORT_RULE).media, setter('mediaText'), [('/* only a comment */', False), ('tv, print and', True)]),
        ('sheet.insertRule(ruleList)', lambda s: s, lambda t, a: t.insertRule(other_rules(a), t.cssRules.length),
         [('b { top: 0 } @import "x";', True), ('b { top: 0 } @namespace n "u";', True), ('b { top: 0 } @charset "ascii";', True)]),
        ('mediaRule.insertRule(ruleList)', media, lambda t, a: t.insertRule(other_rules(a), 0),
         [('b { top: 0 } @font-face { font-family: x }', True), ('b { top: 0 } @import "x";', True)]),
        ('pageRule.insertRule(ruleList)', page, lambda t, a: t.insertRule(other_rules(a), 0), [('b { top: 0 }', False)]),
        # rule lists whose later member is refused for another reason than its position
        ('sheet.insertRule(built ruleList)', lambda s: s, lambda t, a: t.insertRule(built_list(a), built_index(t, a)),
         [('style+empty-style', True), ('comment+namespace-rebinding-used-prefix', True), ('namespace+its-user+late-import', True),
          ('variables+empty-style', True), ('style+unset-import', True), ('style+margin', True)]),
        ('sheet.cssRules.extend(built ruleList)', lambda s: s.cssRules, lambda t, a: t.extend(built_list(a)),
         [('style+empty-style', True), ('variables+empty-style', True)]),
        ('mediaRule.insertRule(built ruleList)', media, lambda t, a: t.insertRule(built_list(a), 0), [('style+empty-style', True), ('style+margin', True)]),
        ('sheet.insertRule(namespace object rebinding a used prefix)', lambda s: s if first(s, R.NAMESPACE_RULE) is not None and first(s, R.NAMESPACE_RULE).prefix else None,
         lambda t, a: t.insertRule(css.CSSNamespaceRule(namespaceURI=a, prefix=first(t, R.NAMESPACE_RULE).prefix), 99),
         [('http://other.example', True)]),
        ('sheet.insertRule(second prefix for a declared URI, then refused)', two_namespaces,
         lambda t, a: t.insertRule(css.CSSNamespaceRule(namespaceURI='http://b.example', prefix='p'), 1), [(None, True)]),
        ('importRule.href= (target does not parse, raising mode)', lambda s: first(s, R.IMPORT_RULE), setter('href'), [('broken.css', True)]),
        ('importRule.cssText= (target does not parse, raising mode)', lambda s: first(s, R.IMPORT_RULE), setter('cssText'),
         [('@import url(broken.css) tv "new";', True), ('@import "broken.css";', True)]),
        ('sheet.insertRule(import object whose target does not parse)', lambda s: s, lambda t, a: t.insertRule(css.CSSImportRule(href=a), 0 if first(t, R.CHARSET_RULE) is None else 1),
         [('broken.css', True)]),
        ('sheet.add(import object whose target does not parse)', lambda s: s, lambda t, a: t.add(css.CSSImportRule(href=a, mediaText='tv')), [('broken.css', True)]),
    ]


def built_list(kind):
    "a CSSRuleList made of rule objects"
    out = css.CSSRuleList()
    ok = css.CSSStyleRule(selectorText='built', style='top: 0')
    if kind == 'style+empty-style':
        list.extend(out, [ok, css.CSSStyleRule()])
    elif kind == 'comment+namespace-rebinding-used-prefix':
        list.extend(out, [css.CSSComment('/* built */'), css.CSSNamespaceRule(namespaceURI='http://other.example', prefix='p')])
    elif kind == 'namespace+its-user+late-import':
        rules = other_rules('@namespace nn "http://nn.example"; nn|b { top: 0 }')
        list.extend(out, list(rules) + [css.CSSImportRule(href='late.css')])
    elif kind == 'variables+empty-style':
        list.extend(out, list(other_rules('@variables { m: 7px; c: blue }')) + [css.CSSStyleRule()])
    elif kind == 'style+unset-import':
        list.extend(out, [ok, css.CSSImportRule()])
    elif kind == 'style+margin':
        list.extend(out, [ok, css.MarginRule(margin='@top-left', style='top: 0')])
    return out


def built_index(sheet, kind):
    if kind in ('comment+namespace-rebinding-used-prefix', 'namespace+its-user+late-import', 'variables+empty-style'):
        # where @namespace / @variables rules may stand
        i = 0
        for i, r in enumerate(sheet.cssRules):
            if r.type not in (R.CHARSET_RULE, R.IMPORT_RULE, R.COMMENT):
                break
        else:
            i = sheet.cssRules.length
        return i
    return sheet.cssRules.length


def two_namespaces(sheet):
    """@namespace z "b"; @namespace p "a"; p|e {}: insertRule(@namespace p "b", 1) re-binds the used prefix p and is refused -
    the rule for z must not have been cleaned away on the way"""
    mode = cssutils.log.raiseExceptions
    cssutils.log.raiseExceptions = False
    try:
        sheet.cssText = '@namespace z "http://b.example"; @namespace p "http://a.example"; p|e { top: 0 }'
    finally:
        cssutils.log.raiseExceptions = mode
    return sheet


def other_rules(text):
    mode = cssutils.log.raiseExceptions
    cssutils.log.raiseExceptions = False
    try:
        return cssutils.CSSParser(fetcher=fetcher).parseString(text).cssRules
    finally:
        cssutils.log.raiseExceptions = mode


MUTATORS = M()
EDITS = [lambda s: s.add('n1 { top: 1px }'), lambda s: first(s, R.STYLE_RULE).style.setProperty('z-index', '1'),
         lambda s: first(s, R.STYLE_RULE).selectorList.appendSelector('n2'), lambda s: s.add('/* n3 */'),
         lambda s: first(s, R.MEDIA_RULE).media.appendMedium('handheld') if first(s, R.MEDIA_RULE) is not None and first(s, R.MEDIA_RULE).media.mediaText != 'all' else None]
FOLLOWUP = [lambda s: s.add('fu { top: 9px }'), lambda s: first(s, R.STYLE_RULE).style.setProperty('bottom', '0'),
            lambda s: first(s, R.STYLE_RULE).__setattr__('selectorText', 'fu2'), lambda s: s.namespaces.__setitem__('fu', 'http://fu.example')]


def table_cases(tier):
    for b in range(len(BASES)):
        for mi, (name, _, _, args) in enumerate(MUTATORS):
            for ai in range(len(args)):
                yield {'base': b, 'mutator': mi, 'arg': ai, 'edits': []}
                if name.startswith(('property.', 'style', 'propertyValue', 'value[')):
                    yield {'base': b, 'mutator': mi, 'arg': ai, 'edits': [], 'defaults': 'CSS Level 2.1'}


table_strategy = st.integers(0, 10 ** 6).flatmap(lambda n: st.fixed_dictionaries({
    'base': st.integers(0, len(BASES) - 1), 'mutator': st.just(n % len(MUTATORS)),
    'arg': st.integers(0, 7), 'edits': st.lists(st.integers(0, len(EDITS) - 1), min_size=1, max_size=3),
    'defaults': st.sampled_from([None, None, 'CSS Level 2.1', 'CSS Color Module Level 3'])}))


def make_sheet(base, edits):
    mode = cssutils.log.raiseExceptions
    cssutils.log.raiseExceptions = False
    sheet = cssutils.CSSParser(fetcher=fetcher).parseString(BASES[base])
    cssutils.log.raiseExceptions = True
    for e in edits:
        try:
            EDITS[e](sheet)
        except (xml.dom.DOMException, AttributeError):
            pass
    return sheet


def check_table(case, ctx):
    mi = case['mutator']
    if isinstance(mi, str):  # witnesses name the mutator and the argument
        mi = next(i for i, m in enumerate(MUTATORS) if m[0] == mi)
    name, locate, call, args = MUTATORS[mi]
    ai = case['arg']
    if isinstance(ai, str):
        ai = next(i for i, a in enumerate(args) if repr(a[0]) == ai)
    arg, late = args[ai % len(args)]
    saved = cssutils.log.raiseExceptions
    try:
        sheet = make_sheet(case['base'], case['edits'])
        cssutils.log.raiseExceptions = True
        try:
            target = locate(sheet)
        except (AttributeError, IndexError, StopIteration):
            target = None
        if target is None:
            ctx.event('no-target')
            return
        before = snapshot(sheet)
        nsobj = sheet.namespaces
        # restricted default profiles are a documented configuration: they change which profile a value is reported for
        saved_defaults = cssutils.profile._defaultProfiles
        if case.get('defaults'):
            cssutils.profile.defaultProfiles = case['defaults']
            ctx.event('restricted default profiles')
        try:
            call(target, arg)
        except xml.dom.DOMException as e:
            exc = e
        except Exception as e:  # noqa: BLE001
            raise Violation('crash:' + name + ':' + frame_sig(e), f'{name}({arg!r}) on base {case["base"]}: {e!r}')
        else:
            exc = None
        finally:
            cssutils.profile._defaultProfiles = saved_defaults
        if exc is None:
            ctx.event('accepted:' + name)
            ctx.case([case['base'], name, repr(arg), case['edits']], False)
            return
        after = snapshot(sheet)
        if after != before or sheet.namespaces is not nsobj:
            diff = next((i for i, (x, y) in enumerate(zip(before, after)) if x != y), 'len/ns-object')
            raise Violation('changed-by-rejected:' + name, f'{name}({arg!r}) raised {type(exc).__name__} but item {diff} changed: '
                            f'{(before[diff] if isinstance(diff, int) else "")!r} -> {(after[diff] if isinstance(diff, int) else "")!r}'[:900])
        # a following valid operation behaves as on an untouched copy
        pristine = make_sheet(case['base'], case['edits'])
        locate(pristine)  # (a locator may prepare the sheet)
        for k, fu in enumerate(FOLLOWUP):
            ra = rb = None
            try:
                fu(sheet)
            except (xml.dom.DOMException, AttributeError) as e:
                ra = type(e).__name__
            except Exception as e:  # noqa: BLE001
                raise Violation('followup-crash:' + name + ':' + frame_sig(e), f'after rejected {name}({arg!r}): follow-up {k}: {e!r}')
            try:
                fu(pristine)
            except (xml.dom.DOMException, AttributeError) as e:
                rb = type(e).__name__
            if ra != rb or snapshot(sheet) != snapshot(pristine):
                raise Violation('followup-differs:' + name, f'after rejected {name}({arg!r}): follow-up {k} gives {ra} / {snapshot(sheet)[0]!r} versus {rb} / {snapshot(pristine)[0]!r}'[:900])
        ctx.event('rejected:' + type(exc).__name__)
        nested = target is not sheet
        ctx.case([case['base'], name, repr(arg), case['edits']], late or nested, {'mutator': name, 'argument': repr(arg), 'exception': type(exc).__name__, 'base': case['base']})
    finally:
        cssutils.log.raiseExceptions = saved


# --------------------------------------------------------------------------- read-only objects

RO = [
    ('CSSStyleSheet', lambda: css.CSSStyleSheet(readonly=True), [('cssText', 'a {}'), ('insertRule', ('a {}', 0)), ('add', 'a {}'), ('deleteRule', 0), ('encoding', 'ascii')]),
    ('CSSStyleRule', lambda: css.CSSStyleRule(selectorText='a', style='top: 0', readonly=True), [('cssText', 'b { left: 0 }'), ('selectorText', 'b'), ('style', 'left: 0')]),
    ('CSSStyleDeclaration', lambda: css.CSSStyleDeclaration(cssText='top: 0', readonly=True), [('cssText', 'left: 0'), ('setProperty', ('left', '0')), ('removeProperty', 'top'), ('__setitem__', ('left', '0')), ('__delitem__', 'top'), ('top', '1px'), ('marginTop', '1px')]),
    ('SelectorList', lambda: css.SelectorList(selectorText='a, b', readonly=True), [('selectorText', 'c'), ('appendSelector', 'c'), ('append', 'c'), ('__setitem__', (0, 'c')), ('__delitem__', 0)]),
    ('Selector', lambda: css.Selector(selectorText='a', readonly=True), [('selectorText', 'b')]),
    ('MediaList', lambda: stylesheets.MediaList(mediaText='print', readonly=True), [('mediaText', 'tv'), ('appendMedium', 'tv'), ('append', 'tv'), ('deleteMedium', 'print'), ('__setitem__', (0, 'tv')), ('__delitem__', 0)]),
    ('MediaQuery', lambda: stylesheets.MediaQuery(mediaText='print', readonly=True), [('mediaText', 'tv'), ('mediaType', 'tv')]),
    ('CSSMediaRule', lambda: css.CSSMediaRule(mediaText='print', readonly=True), [('cssText', '@media tv { a {} }'), ('insertRule', ('a {}', 0)), ('add', 'a {}'), ('deleteRule', 0)]),
    ('CSSPageRule', lambda: css.CSSPageRule(selectorText=':first', style='margin: 0', readonly=True), [('cssText', '@page { margin: 1cm }'), ('selectorText', ':left'), ('style', 'margin: 1cm')]),
    ('CSSImportRule', lambda: css.CSSImportRule(href='x.css', readonly=True), [('cssText', '@import "y.css";'), ('href', 'y.css'), ('name', 'n')]),
    ('CSSNamespaceRule', lambda: css.CSSNamespaceRule(namespaceURI='http://u', prefix='p', readonly=True), [('cssText', '@namespace q "http://v";'), ('prefix', 'q')]),
    ('CSSCharsetRule', lambda: css.CSSCharsetRule(encoding='utf-8', readonly=True), [('cssText', '@charset "ascii";'), ('encoding', 'ascii')]),
    ('CSSFontFaceRule', lambda: css.CSSFontFaceRule(style='font-family: "F"', readonly=True), [('cssText', '@font-face { font-family: "G" }'), ('style', 'font-family: "G"')]),
    ('CSSUnknownRule', lambda: css.CSSUnknownRule('@foo bar;', readonly=True), [('cssText', '@foo baz;')]),
    ('CSSComment', lambda: css.CSSComment('/* a */', readonly=True), [('cssText', '/* b */')]),
    ('PropertyValue', lambda: css.PropertyValue('1px', readonly=True), [('cssText', '2px')]),
    ('Value', lambda: css.value.Value('red', readonly=True), [('cssText', 'blue'), ('value', 'blue')]),
    ('MarginRule', lambda: css.MarginRule(margin='@top-left', style='content: "x"', readonly=True), [('margin', '@top-right'), ('cssText', '@top-right { x: y }'), ('style', 'x: y')]),
    ('CSSMediaRule.media', lambda: css.CSSMediaRule(mediaText='print', readonly=True), [('media', 'tv')]),
    ('CSSVariablesDeclaration', lambda: css.CSSVariablesDeclaration(cssText='a: 1', readonly=True),
     [('cssText', 'b: 2'), ('setVariable', ('b', '2')), ('removeVariable', 'a'), ('__delitem__', 'a'), ('__setitem__', ('a', '2'))]),
    ('URIValue', lambda: css.URIValue('url(a.png)', readonly=True), [('uri', 'b.png'), ('cssText', 'url(c.png)'), ('value', 'd.png')]),
]


def _ro_property():
    st_ = css.CSSStyleDeclaration(cssText='top: 0', readonly=True)
    return st_.getProperties()[0]


def ro_cases(tier):
    for ci, (cname, _, muts) in enumerate(RO):
        for mi in range(len(muts)):
            yield {'cls': ci, 'mut': mi}


def text_of(o):
    for a in ('cssText', 'selectorText', 'mediaText'):
        if hasattr(o, a):
            return getattr(o, a)
    return repr(o)


def check_ro(case, ctx):
    cname, make, muts = RO[case['cls']]
    mname, arg = muts[case['mut']]
    saved = cssutils.log.raiseExceptions
    cssutils.log.raiseExceptions = True
    try:
        try:
            o = make()
        except Exception as e:  # noqa: BLE001
            raise Violation('readonly:constructor-fails:' + cname, repr(e))
        before = text_of(o)
        ctx.case([cname, mname], True, {'class': cname, 'mutator': mname})
        try:
            attr = getattr(type(o), mname, None)
            if isinstance(attr, property) or not callable(getattr(o, mname, None)):
                setattr(o, mname, arg)
            elif isinstance(arg, tuple):
                getattr(o, mname)(*arg)
            else:
                getattr(o, mname)(arg)
        except xml.dom.NoModificationAllowedErr:
            if text_of(o) != before:
                raise Violation('readonly:changed-although-rejected:' + cname + '.' + mname, f'{before!r} -> {text_of(o)!r}')
            return
        except xml.dom.DOMException as e:
            raise Violation('readonly:other-exception:' + cname + '.' + mname, repr(e))
        except Exception as e:  # noqa: BLE001
            raise Violation('readonly:crash:' + cname + '.' + mname, repr(e))
        raise Violation('readonly:mutator-accepted:' + cname + '.' + mname, f'{before!r} -> {text_of(o)!r}')
    finally:
        cssutils.log.raiseExceptions = saved


SUBS = [
    Sub('table', check_table, enumerate=table_cases, shards_quick=8, shards_thorough=16, budget_quick=120),
    Sub('edited', check_table, strategy=table_strategy, quick=1500, thorough=80000, shards_quick=8, budget_quick=90),
    Sub('readonly', check_ro, enumerate=ro_cases, shards_quick=2, shards_thorough=2),
]


from vlib.reported import reported_sub  # noqa: E402

SUBS.append(reported_sub('C11'))
