"""C01 — parsing any input returns a DOM: it never raises and never hangs."""

import glob
import os
import signal
import xml.dom
import sys

from hypothesis import strategies as st

import cssutils
from vlib import cssmodel as A
from vlib.runner import h64, REPO, HarnessAbort, Sub, Violation, frame_sig, lib

PROPERTY = 'C01'
HANG_WATCH = 60  # seconds of CPU on one case after which the runner kills the worker and reports hang:cpu-bound
RULE = (
    'soup: 1..25 fragments from an alphabet of token spellings of every kind, brackets, quotes, escapes, control and '
    'non-ASCII characters and "dangerous glue" (url( / var( / rgb( / calc( / @charset at the end, at-keywords inside '
    'declarations, CDO/CDC), joined with or without white space and truncated anywhere. mutant: renderings of abstract '
    'sheets (C02 generator) and the repository sheets with 1..4 mutations (delete / duplicate / swap a slice, insert a '
    'fragment, cut). nest: blocks, parentheses, brackets, functions, @media, unknown at-rules, :not( nested to depth '
    '1..100. bytes: texts encoded in 12 encodings with/without BOM and @charset (naming the encoding used, another one, an unknown one '
    'or one of 23 odd codec names: non-text codecs base64/hex/rot13/zlib/bz2/uu/quopri, css, undefined, punycode, idna, utf-7, '
    'empty and padded names). named: text sheets naming such an encoding, sheet.encoding set to one, @import targets delivered as '
    'text or bytes with such a transport charset / @charset: nothing may raise. small: ALL strings of up to 4-7 symbols (5-8 '
    'thorough) over small alphabets in 12 contexts (selector, namespaced selector, :not(), value, media query, page selector, '
    '@import prelude, @variables, declaration lists, top-level statements, style attribute) - bounded exhaustive, no generator '
    'luck needed. long: 41 families of FLAT inputs (n terms / declarations / rules / selectors / compounds / media queries / '
    'imports / comments / margin boxes / variables / namespaces ..., and runs of one character after an opener: unclosed string, '
    'url, comment of asterisks, backslashes, digits ...) at n = 30, 300, 1500 (thorough up to 10000): same oracle, so recursion '
    'depth and cost must not grow with length. The runner watches every case from outside: a worker that is still computing on '
    'one case after 60 s of CPU time is killed and the case reported as hang:cpu-bound (regular-expression backtracking is '
    'invisible to the call meter). validation / validation-mixed: every known property with 6..40 repetitions of one to three '
    'terms (keywords named in its own tables, in any table, one token of every kind), separated by space, comma, slash, '
    'hyphen or nothing (one long word), in a style rule, @font-face or @page: as soon as a size takes more than 0.25 s of CPU, '
    'two more terms must not take more than three times as long (a table that matches a term in two ways doubles the time with '
    'every term). growth: seven families whose cost no call meter sees (escapes in an open string, asterisks in an open comment, '
    'font keywords, a variable that refers to itself in k rules, an import graph where each file imports the next twice): the '
    'CPU time between two sizes k1 < k2 < 2*k1 must not rise like a polynomial of degree 6 or more. Every case x (parseComments, validate '
    'at parser and call level, entry point parseString / parseStyle / fresh or reused CSSParser, fetcher returning '
    'content / None / (None, None) / nothing, acyclic and cyclic @import graphs). Oracle: returns the DOM type, no '
    'exception; cssText works; parsing that serialisation and serialising again work; a deterministic cost meter '
    '(number of Python calls inside cssutils, sys.setprofile) must stay below A + B*n + C*n^2 (n = input length) and '
    'for the sweeps cost(2d)/cost(d) <= 12. Non-trivial: the input is not white space only and produced a log record or '
    'a rule; distinct by input.'
)
ASSUMPTIONS = [
    'cost is measured in Python calls inside the cssutils package (deterministic), not in seconds; constants A=20000 B=3000 C=20 are >=10x the worst ratios measured on the repository sheets and on generated well-formed sheets',
    'time spent inside C code (re) is seen by the watchdog (60 s of CPU on one case) and by the growth/validation subs, which compare CPU seconds (time.process_time, best of two) between two sizes: thresholds (0.25 s / 0.4 s floor, factor 3 for two more terms, degree 6) leave a factor >= 1.5 to what cubic behaviour gives',
    'undecodable byte input must raise UnicodeDecodeError or LookupError (the documented behaviour) and nothing else (UnicodeError covers the bare UnicodeError some stdlib codecs raise - undefined, punycode, idna; naming "css" itself raises ValueError, pinned by the suite); the exception must come from the decoding step',
    'function nesting is capped at depth 6 outside the sweep (exponential cost is the listed finding F01-1); cyclic @import graphs are the listed finding F01-2',
]

PREFIX = os.path.join(REPO, 'cssutils')
A_, B_, C_ = 20000, 3000, 20


class Budget(BaseException):
    pass


class NoMeter:
    n = 0

    def __enter__(self):
        return self

    def __exit__(self, *a):
        return False


class Meter:
    def __init__(self, limit):
        self.n = 0
        self.limit = limit

    def __enter__(self):
        def prof(frame, event, arg):
            if event == 'call' and frame.f_code.co_filename.startswith(PREFIX):
                self.n += 1
                if self.n > self.limit:
                    sys.setprofile(None)
                    raise Budget(self.n)

        sys.setprofile(prof)
        return self

    def __exit__(self, *a):
        sys.setprofile(None)
        return False


def _alarm(signum, frame):
    raise HarnessAbort('inconclusive: a single case ran for more than 120 s wall clock')


class Records:
    """counts log records"""

    def __init__(self):
        self.n = 0

    def __enter__(self):
        import logging

        class H(logging.Handler):
            def emit(h, record):
                self.n += 1

        self.h = H()
        self.h.setLevel(logging.DEBUG)
        log = cssutils.log._log
        self.old_handlers = list(log.handlers)
        for h in self.old_handlers:
            log.removeHandler(h)
        self.propagate = log.propagate
        log.propagate = False
        log.addHandler(self.h)
        self.level = log.level
        log.setLevel(logging.WARNING)
        return self

    def __exit__(self, *a):
        log = cssutils.log._log
        log.removeHandler(self.h)
        for h in self.old_handlers:
            log.addHandler(h)
        log.propagate = self.propagate
        log.setLevel(self.level)


VFS = {
    'http://h/a.css': '@import "b.css"; a { top: 0 }',
    'http://h/b.css': '@charset "ascii"; @import url(sub/c.css) print; b { left: 0 }',
    'http://h/sub/c.css': 'c { color: red',
    'http://h/cyc1.css': '@import "cyc2.css"; x {}',
    'http://h/cyc2.css': '@import "cyc1.css"; y {}',
    'http://h/self.css': '@import "self.css"; z {}',
}


def make_fetcher(kind):
    if kind == 'none':
        return lambda url: None
    if kind == 'pair-none':
        return lambda url: (None, None)
    if kind == 'empty':
        return lambda url: (None, '')
    if kind == 'bytes':
        return lambda url: ('utf-8', VFS.get(url, 'q { top: 0 }').encode('utf-8'))
    if kind == 'text':
        return lambda url: (None, VFS.get(url, 'q { top: 0 }'))
    if kind == 'nothing':
        def f(url):
            pass
        return f
    raise ValueError(kind)


CONFIG = st.fixed_dictionaries({
    'entry': st.sampled_from(['sheet', 'sheet', 'sheet', 'style']),
    'parseComments': st.booleans(),
    'validate': st.booleans(),
    'callvalidate': st.sampled_from([None, True, False]),
    'fetcher': st.sampled_from(['none', 'pair-none', 'empty', 'bytes', 'text', 'nothing']),
    'module_level': st.booleans(),
})


def run_one(data, cfg, ctx, n=None, limit=None, meter=True):
    """the oracle; returns cost"""
    n = len(data) if n is None else n
    limit = limit or (A_ + B_ * n + C_ * n * n)
    saved_mode = cssutils.log.raiseExceptions
    old = signal.signal(signal.SIGALRM, _alarm)
    signal.alarm(120)
    try:
        with Records() as rec, (Meter(limit) if meter else NoMeter()) as meter:
            try:
                may_import = isinstance(data, bytes) or 'mp' in data.lower() or '\\' in data
                if cfg['module_level'] and cfg['entry'] == 'sheet' and cfg['fetcher'] == 'none' and not may_import:
                    # module level entry point (default fetcher: only for inputs that cannot contain an @import)
                    obj = cssutils.parseString(data, validate=cfg['callvalidate'])
                elif cfg['module_level'] and cfg['entry'] == 'style':
                    obj = cssutils.parseStyle(data, validate=cfg['callvalidate'])
                else:
                    p = cssutils.CSSParser(parseComments=cfg['parseComments'], validate=cfg['validate'],
                                           fetcher=make_fetcher(cfg['fetcher']))
                    if cfg['entry'] == 'sheet':
                        obj = p.parseString(data, href='http://h/main.css', validate=cfg['callvalidate'])
                    else:
                        obj = p.parseStyle(data, validate=cfg['callvalidate'])
                want = cssutils.css.CSSStyleSheet if cfg['entry'] == 'sheet' else cssutils.css.CSSStyleDeclaration
                if not isinstance(obj, want):
                    raise Violation('result:wrong-type', f'{type(obj)} for {data[:200]!r}')
                t1 = obj.cssText
                if not isinstance(t1, bytes if cfg['entry'] == 'sheet' else str):
                    raise Violation('result:cssText-type', f'{type(t1)}')
                if cfg['entry'] == 'sheet':
                    o2 = cssutils.CSSParser(fetcher=make_fetcher('none')).parseString(t1)
                    nrules = obj.cssRules.length
                else:
                    o2 = cssutils.CSSParser().parseStyle(t1)
                    nrules = obj.length
                o2.cssText
            except Budget:
                raise
            except (Violation, HarnessAbort):
                raise
            except RecursionError as e:
                raise Violation('crash:RecursionError', f'{cfg} {data[:200]!r}: {e!r}'[:400])
            except Exception as e:  # noqa: BLE001
                raise Violation('crash:' + frame_sig(e), f'{cfg} {data[:300]!r}: {e!r}'[:600])
        return meter.n, rec.n, nrules
    except Budget as b:
        raise Violation('cost:exceeds-polynomial-bound', f'{b} calls > {limit} for input of length {n}: {cfg} {data[:200]!r}')
    finally:
        signal.alarm(0)
        signal.signal(signal.SIGALRM, old)
        cssutils.log.raiseExceptions = saved_mode


# --------------------------------------------------------------------------- soups

FRAGS = ['a', 'b', 'div', 'color', 'red', '1px', '10%', '.5', '-1', '+2em', '#fff', '#i', '.c', '"s"', "'t'", '"', "'", 'url(x)',
         'url(', 'url("', 'URL( ', 'U+0-7F', '/*', '*/', '/* c */', '<!--', '-->', '{', '}', '(', ')', '[', ']', ';', ':', ',', '.', '>',
         '+', '~', '*', '|', '=', '~=', '|=', '^=', '$=', '*=', '!', '!important', '! important', '@', '@import', '@import "x.css"',
         '@import "a.css";', '@media', '@media print', '@page', '@page :first',
         '@font-face', '@namespace', '@namespace p "u";', '@charset', '@charset ', '@charset "utf-8";', '@variables', '@foo',
         '@top-left', 'var(', 'var(x', 'rgb(', 'rgb(1,2', 'rgba(', 'hsl(', 'calc(', 'calc(1px + ', 'attr(', 'f(', 'not(', ':not(',
         ':nth-child(', ':hover', '::before', 'and', 'and(', 'not', 'only', 'progid:DXImageTransform.Microsoft.x(', 'expression(',
         '\\', '\\41 ', '\\a', '\\\n', '\\"', '\\110000 ', '\\0', '\x00', '\x01', '\x7f', '﻿', '\xfe\xff', 'é', '中', '\U0001F600',
         '\ud800', '\n', '\r\n', '\t', '\f', ' ', '  ', 'p|a', '*|*', '|a', 'a|', '%', '$', '&', '?', '^', '`', '0', '00', '1e3',
         '1.2.3', '--x', '-', '-a', '_', 'a{b:c}', 'a{', '{a:b}', 'x:y;', 'x:y', ':y', 'x:', '@media{', '@media print{a{', '@page{@top-left{']

soup_strategy = st.fixed_dictionaries({
    'frags': st.lists(st.sampled_from(FRAGS), min_size=1, max_size=25),
    'sep': st.sampled_from(['', '', ' ', '\n']),
    'cut': st.one_of(st.none(), st.integers(0, 200)),
    'cfg': CONFIG,
})


def classify(ctx, data, cost, recs, nrules, cfg):
    text = data if isinstance(data, str) else data.decode('latin-1')
    nt = bool(text.strip()) and (recs > 0 or nrules > 0)
    ctx.event('entry:' + cfg['entry'])
    ctx.event('fetcher:' + cfg['fetcher'])
    if recs:
        ctx.event('logged-problems')
    return nt


def check_soup(case, ctx):
    text = case['sep'].join(case['frags'])
    if case['cut'] is not None:
        text = text[:case['cut']]
    cost, recs, nrules = run_one(text, case['cfg'], ctx)
    nt = classify(ctx, text, cost, recs, nrules, case['cfg'])
    ctx.case([text, sorted(case['cfg'].items())], nt, {'text': text[:200], 'cfg': case['cfg'], 'cost': cost})


# --------------------------------------------------------------------------- mutants of well-formed sheets

mut_op = st.one_of(
    st.tuples(st.just('del'), st.integers(0, 10 ** 6), st.integers(1, 12)),
    st.tuples(st.just('dup'), st.integers(0, 10 ** 6), st.integers(1, 12)),
    st.tuples(st.just('swap'), st.integers(0, 10 ** 6), st.integers(1, 8)),
    st.tuples(st.just('ins'), st.integers(0, 10 ** 6), st.sampled_from(FRAGS)),
    st.tuples(st.just('cut'), st.integers(0, 10 ** 6)),
)
_REPO_SHEETS = None


def repo_sheets():
    global _REPO_SHEETS
    if _REPO_SHEETS is None:
        out = []
        for f in sorted(glob.glob(os.path.join(REPO, 'sheets', '*.css'))):
            with open(f, 'rb') as fh:
                b = fh.read()
            if len(b) < 6000:
                out.append((os.path.basename(f), b.decode('latin-1')))
        _REPO_SHEETS = out
    return _REPO_SHEETS


mutant_strategy = st.fixed_dictionaries({
    'model': st.one_of(st.none(), A.sheet(max_body=3)),
    'repo': st.integers(0, 200),
    'seed': st.integers(0, 2 ** 30),
    'ops': st.lists(mut_op, min_size=1, max_size=4),
    'cfg': CONFIG,
})


def mutate(text, ops):
    for o in ops:
        if not text:
            break
        i = o[1] % (len(text) + 1)
        if o[0] == 'del':
            text = text[:i] + text[i + o[2]:]
        elif o[0] == 'dup':
            text = text[:i] + text[i:i + o[2]] * 2 + text[i + o[2]:]
        elif o[0] == 'swap':
            a, b = text[i:i + o[2]], text[i + o[2]:i + 2 * o[2]]
            text = text[:i] + b + a + text[i + 2 * o[2]:]
        elif o[0] == 'ins':
            text = text[:i] + o[2] + text[i:]
        elif o[0] == 'cut':
            text = text[:i]
    return text


def cap_function_nesting(text, maxdepth=6):
    """keep inputs out of the region of finding F01-1 (cost doubles per nested function level)"""
    depth = 0
    out = []
    for ch in text:
        if ch == '(':
            depth += 1
            if depth > maxdepth:
                continue
        elif ch == ')':
            if depth > maxdepth:
                depth -= 1
                continue
            depth = max(0, depth - 1)
        out.append(ch)
    return ''.join(out)


def check_mutant(case, ctx):
    if case['model'] is not None:
        base = A.render_sheet(case['model'], case['seed'])
        ctx.event('base:generated')
    else:
        sheets = repo_sheets()
        name, base = sheets[case['repo'] % len(sheets)]
        ctx.event('base:repo')
    text = cap_function_nesting(mutate(base, case['ops']))
    cost, recs, nrules = run_one(text, case['cfg'], ctx)
    nt = classify(ctx, text, cost, recs, nrules, case['cfg'])
    ctx.case([text, sorted(case['cfg'].items())], nt, {'text': text[:200], 'ops': [o[0] for o in case['ops']], 'cost': cost})


# --------------------------------------------------------------------------- nesting sweeps

NEST = {
    'brace': ('a{', 'b:c', '}'),
    'paren': ('a{x:' + '', '1', '}'),
    'bracket': ('a{x:', '1', '}'),
    'media': ('@media print{', 'a{top:0}', '}'),
    'unknown': ('@foo{', 'a{b:c}', '}'),
    'not': ('a:not(', '.b', ')'),
    'selparen': ('a:f(', 'x', ')'),
    'string-escape': ('a{content:"', '\\\\', '"}'),
}
DEPTHS = [1, 2, 4, 8, 16, 32, 64, 100]


def nest_text(kind, d, closed=True):
    if kind == 'paren':
        return 'a{x:' + '(' * d + '1' + (')' * d if closed else '') + '}'
    if kind == 'bracket':
        return 'a{x:' + '[' * d + '1' + (']' * d if closed else '') + '}'
    if kind == 'not':
        return 'a' + ':not(' * d + '.b' + (')' * d if closed else '') + '{top:0}'
    if kind == 'selparen':
        return 'a' + ':f(' * d + 'x' + (')' * d if closed else '') + '{top:0}'
    if kind == 'string-escape':
        return 'a{content:"' + '\\\\' * d + '"}'
    if kind == 'function':
        return 'a{x:' + 'f(' * d + '1' + (')' * d if closed else '') + '}'
    o, body, c = NEST[kind]
    return o * d + body + (c * d if closed else '')


def nest_cases(tier):
    kinds = sorted(NEST)
    for k in kinds:
        for closed in (True, False):
            depths = DEPTHS if tier == 'quick' else list(range(1, 101))
            if k == 'unknown' and closed:
                depths = [1, 2, 3, 4, 5, 6]  # deeper: listed finding F01-3, probed by the unest sub
            yield {'kind': k, 'closed': closed, 'depths': depths}
    yield {'kind': 'function', 'closed': True, 'depths': [1, 2, 3, 4, 5, 6]}


DEFAULT_CFG = {'entry': 'sheet', 'parseComments': True, 'validate': True, 'callvalidate': None, 'fetcher': 'none', 'module_level': False}


def check_nest(case, ctx):
    costs = {}
    for d in case['depths']:
        text = nest_text(case['kind'], d, case['closed'])
        cost, recs, nrules = run_one(text, DEFAULT_CFG, ctx)
        costs[d] = cost
        # style attribute entry point as well
        if case['kind'] in ('paren', 'bracket', 'function', 'string-escape'):
            run_one(text[2:-1], dict(DEFAULT_CFG, entry='style'), ctx)
    for d in case['depths']:
        if d >= 8 and 2 * d in costs and costs[2 * d] > 12 * costs[d]:
            raise Violation('cost:growth-ratio', f'{case["kind"]} closed={case["closed"]}: cost({2 * d})={costs[2 * d]} > 12*cost({d})={costs[d]}')
    ctx.case([case['kind'], case['closed']], True, {'kind': case['kind'], 'closed': case['closed'], 'costs': {str(k): v for k, v in costs.items()}})


def fnest_cases(tier):
    yield {'kind': 'function', 'depths': [4, 6, 8, 10, 12]}
    yield {'kind': 'unknown', 'depths': [4, 6, 8, 10, 12]}


def check_fnest(case, ctx):
    """probes the listed findings F01-1 / F01-3: cost doubles per nesting level of functions / unknown at-rule blocks"""
    costs = {}
    kind = case['kind']
    for d in case['depths']:
        text = nest_text(kind, d)
        try:
            costs[d], _, _ = run_one(text, DEFAULT_CFG, ctx, limit=5 * 10 ** 6)
        except Violation as v:
            if v.sig == 'cost:exceeds-polynomial-bound':
                raise Violation(f'cost:{kind}-nesting-exponential', f'depth {d}: {v.msg}; earlier {costs}')
            raise
    ctx.case(kind + '-nesting', True, {'kind': kind, 'costs': {str(k): v for k, v in costs.items()}})
    ds = case['depths']
    for a, b in zip(ds, ds[1:]):
        if costs[b] > 1.5 * (b / a) ** 2 * costs[a]:
            raise Violation(f'cost:{kind}-nesting-exponential', f'cost by depth {costs}: grows faster than quadratically')


# --------------------------------------------------------------------------- cyclic imports (finding F01-2)


def cyc_cases(tier):
    for t in ['@import "self.css";', '@import "cyc1.css"; a{}', '@import url(http://h/cyc2.css) print;']:
        yield {'text': t}


def check_cyc(case, ctx):
    ctx.case(case['text'], True, case)
    lim = sys.getrecursionlimit()
    try:
        cost, recs, nrules = run_one(case['text'], dict(DEFAULT_CFG, fetcher='text'), ctx, limit=3 * 10 ** 6)
    except Violation as v:
        if v.sig in ('crash:RecursionError', 'cost:exceeds-polynomial-bound'):
            raise Violation('import-cycle:unbounded-recursion', v.msg[:300])
        raise
    finally:
        sys.setrecursionlimit(lim)


# --------------------------------------------------------------------------- bytes

# codecs that exist but are not text encodings, or are odd ones: naming them must behave like naming an unknown encoding
ODD_CODECS = ['base64', 'hex', 'rot13', 'zlib', 'bz2', 'uu', 'quopri', 'css', 'undefined', 'unicode_escape', 'raw_unicode_escape',
              'punycode', 'idna', 'utf-7', 'mbcs', 'string-escape', '', ' ', 'utf-8 ', 'UTF8', 'u8', 'latin_1', 'iso-8859-1\n',
              'cp037', 'cp500', 'mac_arabic', 'iso2022_jp', 'raw_unicode_escape', '\\\x00', 'utf-8\\\x00']
ENCODINGS = ['utf-8', 'utf-8-sig', 'utf-16', 'utf-16-le', 'utf-16-be', 'utf-32', 'latin-1', 'cp1252', 'koi8-r', 'shift_jis', 'ascii', 'gb2312']
bytes_strategy = st.fixed_dictionaries({
    'text': st.lists(st.sampled_from(FRAGS[:60] + ['é', 'ä', '€', 'Ж', '中', 'あ']), min_size=1, max_size=12).map(' '.join),
    'enc': st.sampled_from(ENCODINGS),
    'charset': st.sampled_from([None, None, 'same', 'same', 'utf-8', 'latin-1', 'koi8-r', 'x-unknown', 'ascii'] + ODD_CODECS),
    'override': st.sampled_from([None, None, None, None, 'same', 'utf-8', 'latin-1', 'x-unknown'] + ODD_CODECS[:4]),
    'garble': st.one_of(st.none(), st.integers(0, 40)),
    'cfg': CONFIG,
})


def check_bytes(case, ctx):
    enc = case['enc']
    text = case['text']
    if case['charset']:
        name = enc if case['charset'] == 'same' else case['charset']
        text = '@charset "%s";' % name + text
    try:
        data = text.encode(enc)
    except UnicodeEncodeError:
        ctx.event('domain:not-encodable')
        return
    if case['garble'] is not None and data:
        i = case['garble'] % len(data)
        data = data[:i] + b'\xff\xfe\x80'[i % 3:i % 3 + 1] + data[i + 1:]
    cfg = dict(case['cfg'], entry='sheet', module_level=False)
    override = enc if case['override'] == 'same' else case['override']
    saved = cssutils.log.raiseExceptions
    try:
        try:
            p = cssutils.CSSParser(parseComments=cfg['parseComments'], validate=cfg['validate'], fetcher=make_fetcher(cfg['fetcher']))
            with Meter(A_ + B_ * len(data) + C_ * len(data) ** 2):
                sheet = p.parseString(data, encoding=override)
                t1 = sheet.cssText
                cssutils.CSSParser(fetcher=make_fetcher('none')).parseString(t1).cssText
            ctx.event('decoded')
            nt = sheet.cssRules.length > 0
        except UnicodeError as e:
            # UnicodeDecodeError, or the bare UnicodeError some stdlib codecs raise (undefined, punycode, idna)
            if 'codec.py' not in frame_sig(e):
                raise Violation('crash:bytes:' + frame_sig(e), f'{data[:200]!r} override={override}: {e!r}'[:500])
            ctx.event('rejected-as-undecodable')
            nt = False
        except ValueError as e:
            # the css codec cannot be its own encoding (pinned by the suite as ValueError)
            # ... and codecs.lookup answers ValueError, not LookupError, for a name with a NUL character: no encoding applies
            if 'css not allowed as encoding name' not in str(e) and 'embedded null' not in str(e):
                raise Violation('crash:bytes:' + frame_sig(e), f'{data[:200]!r} override={override}: {e!r}'[:500])
            ctx.event('rejected-unknown-encoding')
            nt = False
        except LookupError as e:
            if type(e) is not LookupError:  # IndexError / KeyError are crashes, not "unknown encoding"
                raise Violation('crash:bytes:' + frame_sig(e), f'{data[:200]!r} override={override}: {e!r}'[:500])
            ctx.event('rejected-unknown-encoding')
            nt = False
        except Budget as b:
            raise Violation('cost:exceeds-polynomial-bound', f'{b} for {data[:100]!r}')
        except (Violation, HarnessAbort):
            raise
        except RecursionError as e:
            raise Violation('crash:RecursionError', f'{data[:200]!r}')
        except Exception as e:  # noqa: BLE001
            raise Violation('crash:bytes:' + frame_sig(e), f'{data[:200]!r} override={override}: {e!r}'[:500])
    finally:
        sys.setprofile(None)
        cssutils.log.raiseExceptions = saved
    ctx.event('enc:' + enc)
    ctx.case([data.hex(), override], nt, {'bytes': data[:80].hex(), 'enc': enc, 'override': override})



# --------------------------------------------------------------------------- text sheets that name an encoding; fetchers that deliver odd encodings

NAMES = ['utf-8', 'ascii', 'x-unknown'] + ODD_CODECS
named_strategy = st.fixed_dictionaries({
    'own': st.sampled_from([None] + NAMES),
    'set_encoding': st.sampled_from([None, None] + NAMES),
    'import_transport': st.sampled_from([None, None] + NAMES),
    'import_charset': st.sampled_from([None, None] + NAMES),
    'import_bytes': st.booleans(),
    'body': st.sampled_from(['a { top: 0 }', 'é { content: "€" }', '']),
    'cfg': CONFIG,
})


def check_named(case, ctx):
    """no byte input here: nothing may raise"""
    text = ('@charset "%s";' % case['own'] if case['own'] is not None else '') + '@import "i.css";' + case['body']
    itext = ('@charset "%s";' % case['import_charset'] if case['import_charset'] is not None else '') + 'i { left: 0 } ' + case['body']

    def fetcher(url):
        return (case['import_transport'], itext.encode('utf-8') if case['import_bytes'] else itext)

    cfg = case['cfg']
    saved = cssutils.log.raiseExceptions
    try:
        try:
            p = cssutils.CSSParser(parseComments=cfg['parseComments'], validate=cfg['validate'], fetcher=fetcher)
            sheet = p.parseString(text, href='http://h/main.css')
            if case['set_encoding'] is not None:
                try:
                    sheet.encoding = case['set_encoding']
                except xml.dom.DOMException:
                    ctx.event('encoding-rejected')
            t1 = sheet.cssText
            for r in sheet.cssRules:
                if r.type == r.IMPORT_RULE and r.styleSheet is not None:
                    r.styleSheet.cssText
            try:
                cssutils.CSSParser(fetcher=make_fetcher('none')).parseString(t1).cssText
            except (UnicodeDecodeError, LookupError) as e:
                raise Violation('named:serialisation-not-decodable', f'{text!r} (encoding= {case["set_encoding"]!r}) -> {t1[:100]!r}: {e!r}')
        except Violation:
            raise
        except RecursionError:
            raise Violation('crash:RecursionError', f'{text!r}')
        except Exception as e:  # noqa: BLE001
            raise Violation('crash:named:' + frame_sig(e), f'{text!r} import ({case["import_transport"]!r}, {itext!r}, bytes={case["import_bytes"]}) encoding={case["set_encoding"]!r}: {e!r}'[:700])
    finally:
        cssutils.log.raiseExceptions = saved
    odd = [x for x in (case['own'], case['set_encoding'], case['import_transport'], case['import_charset']) if x in ODD_CODECS or x == 'x-unknown']
    ctx.case([text, itext, case['import_transport'], case['import_bytes'], case['set_encoding']], bool(odd), {'text': text, 'import': itext})


# --------------------------------------------------------------------------- all short strings over small alphabets (no generator luck needed)

SMALL = {
    # context template, alphabet quick, max length quick, alphabet thorough, max length thorough
    'selector': ('%s{top:0}', ['*', '|', 'a', ':', '(', ')', '[', ']', ',', '.'], 4, ['*', '|', 'a', ':', '(', ')', '[', ']', ',', '.', '#', '=', '"', ' ', '>', '+'], 5),
    'selector-ns': ('@namespace a "u";%s{top:0}', ['*', '|', 'a'], 7, ['*', '|', 'a', 'b', ' '], 8),
    'not': ('x:not(%s){top:0}', ['*', '|', 'a', ':', '(', ')', '[', ']', '.', ' '], 4, ['*', '|', 'a', ':', '(', ')', '[', ']', '.', ' ', '#', ','], 5),
    'value': ('a{x:%s}', ['a', '1', '(', ')', ',', '/', '"', 'f(', '-', '!', ';', '{', '}', ':'], 4,
              ['a', '1', '(', ')', ',', '/', '"', 'f(', '-', '!', ';', '{', '}', ':', 'url(', '+', '%', ' ', '#', 'rgb('], 5),
    'media': ('@media %s{a{top:0}}', ['all', 'and', '(', ')', 'not', ',', ':', '1', ' ', 'a'], 4,
              ['all', 'and', '(', ')', 'not', 'only', ',', ':', '1px', ' ', 'a', '/'], 5),
    'page': ('@page %s{margin:0}', [':', 'first', 'a', ' ', ',', '@', '(', '{', '}'], 4, [':', 'first', 'left', 'a', ' ', ',', '@', '(', ')', '{', '}', '.'], 5),
    'import': ('@import %s;a{top:0}', ['"x"', 'url(x)', 'all', 'and', '(', ')', ',', ' ', 'a', ':'], 4,
               ['"x"', 'url(x)', 'all', 'and', '(', ')', ',', ' ', 'a', ':', '"', 'not'], 5),
    'variables': ('@variables {%s} a{top:var(a)}', ['a', ':', '1', ';', '/*c*/', ' ', '}', 'var(', ')'], 5,
                  ['a', 'b', ':', '1', ';', '/*c*/', ' ', '}', 'var(', ')', '{', '!'], 6),
    'variables-decls': ('@variables {%s} a{top:var(a)}', ['a:1', ';', '/*c*/', ' ', 'b:2', 'A:3', 'a:var(b)', ':'], 5,
                        ['a:1', ';', '/*c*/', ' ', 'b:2', 'A:3', 'a:var(b)', ':', '}', 'a\\62 :4'], 6),
    'declarations': ('a{%s}', ['top:0', ';', '/*c*/', ' ', 'TOP:1', '!important', 'x', ':', '{}'], 5,
                     ['top:0', ';', '/*c*/', ' ', 'TOP:1', '!important', 'x', ':', '{}', '@a', '"'], 6),
    'statement': ('%s', ['@', 'a', '{', '}', ';', '(', ')', '"', '@media', '@import', ' ', ':'], 4,
                  ['@', 'a', '{', '}', ';', '(', ')', '"', '@media ', '@import ', ' ', ':', '@page', '@font-face', '[', ']', '/*', '*/'], 5),
    'style-attr': ('%s', ['a', ':', ';', '1', '!', '(', '{', '}', '/*', '"'], 4, ['a', ':', ';', '1', '!', '(', ')', '{', '}', '/*', '*/', '"', 'important', ' '], 5),
}


def small_cases(tier):
    import itertools

    for name, (tmpl, aq, nq, at, nt_) in sorted(SMALL.items()):
        alpha, nmax = (aq, nq) if tier == 'quick' else (at, nt_)
        for n in range(1, nmax + 1):
            for combo in itertools.product(range(len(alpha)), repeat=n):
                yield {'ctx': name, 'text': ''.join(alpha[i] for i in combo)}


DEFAULT_CFG = {'entry': 'sheet', 'parseComments': True, 'validate': True, 'callvalidate': None, 'fetcher': 'empty', 'module_level': False}


def check_small(case, ctx):
    text = SMALL[case['ctx']][0] % case['text']
    h = h64([text])
    cfg = dict(DEFAULT_CFG)
    if case['ctx'] == 'style-attr':
        cfg['entry'] = 'style'
    if h % 4 == 0:
        cfg['parseComments'] = False
    if h % 8 < 2:
        cfg['validate'] = False
    cost, recs, nrules = run_one(text, cfg, ctx, meter=False)
    ctx.event('small:' + case['ctx'])
    ctx.case(text, recs > 0, {'text': text} if h % 50 == 0 else None)


# --------------------------------------------------------------------------- long flat inputs: cost and recursion must not grow with *length*

LONG = {
    'terms-space': lambda n: 'a{x:' + ' 1' * n + '}',
    'terms-comma': lambda n: 'a{x:1' + ',1' * n + '}',
    'terms-mixed': lambda n: 'a{font-family:' + ','.join(['"a" b'] * n) + '}',
    'declarations': lambda n: 'a{' + 'top:0;' * n + '}',
    'rules': lambda n: 'a{top:0}' * n,
    'selectors': lambda n: ','.join(['a'] * n) + '{top:0}',
    'compounds': lambda n: ' '.join(['a'] * n) + '{top:0}',
    'classes': lambda n: 'a' + '.c' * n + '{top:0}',
    'media': lambda n: '@media ' + ','.join(['tv'] * n) + '{a{top:0}}',
    'media-and': lambda n: '@media tv' + ' and (color)' * n + '{a{top:0}}',
    'media-rules': lambda n: '@media tv{' + 'a{top:0}' * n + '}',
    'imports': lambda n: '@import "x.css";' * n,
    'comments': lambda n: '/*c*/' * n + 'a{top:0}',
    'string': lambda n: 'a{content:"' + 'x' * n + '"}',
    'open-string': lambda n: 'a{content:"' + 'x' * n,
    'open-string-nl': lambda n: 'a{content:"' + 'x' * n + '\n}',
    'open-url': lambda n: 'a{b:url("' + 'x' * n,
    'open-comment-stars': lambda n: '/*' + '*' * n,
    'comment-stars': lambda n: '/*' + '*' * n + ' x',
    'ident': lambda n: 'a' * n + '{top:0}',
    'digits': lambda n: 'a{x:' + '1' * n + 'e}',
    'escapes': lambda n: 'a{x:' + '\\41 ' * n + '}',
    'backslashes': lambda n: 'a{x:' + '\\' * n + '}',
    'white': lambda n: 'a' + ' ' * n + '{top:0}',
    'newlines': lambda n: 'a{' + '\n' * n + 'top:0}',
    'semicolons': lambda n: 'a{' + ';' * n + '}',
    'garbage-stmt': lambda n: ';' * n + 'a{top:0}',
    'at': lambda n: '@' * n,
    'hashes': lambda n: '#' * n + '{top:0}',
    'pipes': lambda n: '|' * n + 'a{top:0}',
    'dashes': lambda n: 'a{x:' + '-' * n + 'a}',
    'important': lambda n: 'a{x:1' + ' !important' * n + '}',
    'page-margins': lambda n: '@page{' + '@top-left{content:"x"}' * n + '}',
    'variables': lambda n: '@variables{' + ''.join('v%d:1;' % i for i in range(n)) + '}',
    'namespaces': lambda n: ''.join('@namespace p%d "u%d";' % (i, i) for i in range(n)) + 'a{top:0}',
    'unknown-prelude': lambda n: '@foo' + ' a' * n + ';',
    'calc': lambda n: 'a{width:calc(1px' + ' + 1px' * n + ')}',
    'function-args': lambda n: 'a{x:f(1' + ',1' * n + ')}',
    'attr': lambda n: 'a' + '[b]' * n + '{top:0}',
    'not': lambda n: 'a' + ':not(b)' * n + '{top:0}',
    'style-attr-decls': lambda n: 'top:0;' * n,
    'atkeywords': lambda n: '@a ' * n,
    'atkeywords-in-block': lambda n: 'x{' + '@a ' * n + '}',
    'atkeywords-in-unknown': lambda n: '@foo ' + '@a ' * n + ';',
    'margin-values': lambda n: 'a{margin:' + ' 1px' * n + '}',
    'background-values': lambda n: 'a{background:' + ' red' * n + '}',
    'border-values': lambda n: 'a{border:' + ' solid' * n + '}',
    'variables-many': lambda n: ''.join('@variables{x%d:1}' % i for i in range(min(n, 150))),
}
LONG_SIZES = {'quick': [30, 300, 1500], 'thorough': [30, 100, 300, 1000, 3000, 5000]}
# sys.setprofile multiplies the run time: sizes from 3000 on run without the call meter and rely on the watchdog
CHEAP = ('digits', 'terms-space', 'terms-comma', 'string', 'open-string', 'ident', 'comments', 'escapes', 'white', 'open-comment-stars',
         'comment-stars', 'backslashes', 'semicolons', 'dashes', 'hashes', 'pipes', 'at', 'newlines', 'open-url', 'open-string-nl')


QUADRATIC = ('imports', 'variables-many', 'namespaces', 'imports-media', 'variables')


def long_cases(tier):
    for name in sorted(LONG):
        for n in LONG_SIZES[tier]:
            if n > 3000 and name in QUADRATIC:
                # quadratic by construction (every new rule looks at all rules before it): 3000 takes 10-30 s of CPU, 5000 would come
                # close to what the watchdog calls a hang
                continue
            yield {'family': name, 'n': n}
        if name in CHEAP:
            # e.g. Python refuses to convert integers of more than 4300 digits
            yield {'family': name, 'n': 20000}


def check_long(case, ctx):
    text = LONG[case['family']](case['n'])
    cfg = dict(DEFAULT_CFG)
    if case['family'].startswith('style-attr'):
        cfg['entry'] = 'style'
    # flat inputs: linear growth expected; the bound below is the common polynomial budget
    big = case['n'] >= 3000
    cost, recs, nrules = run_one(text, cfg, ctx, meter=not big)
    ctx.event('long:' + case['family'])
    ctx.case([case['family'], case['n']], case['n'] >= 300, {'family': case['family'], 'n': case['n'], 'calls': cost, 'length': len(text)})


SUBS = [
    Sub('named', check_named, strategy=named_strategy, quick=1500, thorough=60000, shards_quick=4),
    Sub('small', check_small, enumerate=small_cases, shards_quick=8, shards_thorough=16, budget_quick=120, budget_thorough=3000),
    Sub('long', check_long, enumerate=long_cases, shards_quick=8, shards_thorough=16, budget_quick=120, budget_thorough=3000),
    Sub('soup', check_soup, strategy=soup_strategy, quick=5000, thorough=400000, shards_quick=8, budget_quick=60),
    Sub('mutant', check_mutant, strategy=mutant_strategy, quick=1500, thorough=100000, shards_quick=8, budget_quick=60),
    Sub('nest', check_nest, enumerate=nest_cases, shards_quick=8, shards_thorough=16),
    Sub('fnest', check_fnest, enumerate=fnest_cases, shards_quick=1, shards_thorough=1),
    Sub('cyc', check_cyc, enumerate=cyc_cases, shards_quick=1, shards_thorough=1),
    Sub('bytes', check_bytes, strategy=bytes_strategy, quick=2000, thorough=100000, shards_quick=4),
]


# --------------------------------------------------------------------------- default fetcher with URLs it cannot open (offline, no network needed)


def deffetch_cases(tier):
    for u in ['http://exa mple.com/c.css', 'http://h/\x01.css', '1', 'mailto:x', 'file:///nonexistent/x.css', 'http://[::1/x.css']:
        yield {'url': u}


def check_deffetch(case, ctx):
    ctx.case(case['url'], True, case)
    saved = cssutils.log.raiseExceptions
    cssutils.log.raiseExceptions = False
    try:
        with Records():
            try:
                sheet = cssutils.parseString('@import "%s"; a { top: 0 }' % case['url'])
                sheet.cssText
            except Exception as e:  # noqa: BLE001
                raise Violation('crash:default-fetcher:' + type(e).__name__, f'{case["url"]!r}: {e!r}')
    finally:
        cssutils.log.raiseExceptions = saved


SUBS.append(Sub('deffetch', check_deffetch, enumerate=deffetch_cases, shards_quick=1, shards_thorough=1))


# --------------------------------------------------------------------------- exponential growth that no call meter sees (regular expressions, variable expansion)

GROWTH = {
    # family: (text(k), small k, large k): time must not explode between the two
    'font-validation': (lambda k: 'a{font:' + 'normal ' * k + '}', 10, 14),
    'variables-self-reference': (lambda k: '@variables{x:var(x) var(x)}' * k, 8, 11),
    'escapes-in-open-string': (lambda k: 'a{x:"' + '\\e9' * k, 12, 20),
    'comment-stars': (lambda k: '/*' + '*' * k, 16, 26),
    'nonascii-ident-validation': (lambda k: 'a{page: ' + 'é' * k + ' 1}', 12, 20),
}


def _dag(depth):
    "an acyclic import graph of depth+1 files: every level imports the next one twice"
    def fetch(url):
        i = int(url.rsplit('/', 1)[1].split('.')[0][1:])
        if i >= depth:
            return None, 'a{top:0}'
        return None, '@import "l%d.css";@import "l%d.css?";' % (i + 1, i + 1)

    return '@import "l1.css";@import "l1.css?";', fetch


GROWTH['import-dag'] = (_dag, 8, 12)


def growth_cases(tier):
    for name in sorted(GROWTH):
        yield {'family': name}


def check_growth(case, ctx):
    import time

    make, k1, k2 = GROWTH[case['family']]
    saved = cssutils.log.raiseExceptions
    cssutils.log.raiseExceptions = False
    try:
        def cpu(k):
            best = None
            for _ in range(2):
                t0 = time.process_time()
                text = make(k)
                if isinstance(text, tuple):
                    text, fetcher = text
                    cssutils.CSSParser(fetcher=fetcher).parseString(text, href='http://h/l0.css').cssText
                else:
                    cssutils.parseString(text).cssText
                dt = time.process_time() - t0
                best = dt if best is None else min(best, dt)
            return best

        with lib('growth'):
            t1, t2 = cpu(k1), cpu(k2)
    finally:
        cssutils.log.raiseExceptions = saved
    ctx.case(case['family'], True, {'family': case['family'], 'cpu_small': round(t1, 4), 'cpu_large': round(t2, 4)})
    # the input grows by k2/k1 < 2: a polynomial of degree 5 multiplies the time by less than (k2/k1)**5 (at most 13 here),
    # exponential behaviour by orders of magnitude
    import math

    degree = math.log(t2 / max(t1, 0.002)) / math.log(k2 / k1) if t2 > 0.4 else 0
    if degree > 6:
        raise Violation('growth:exponential:' + case['family'],
                        f'{case["family"]}: {k1} units take {t1:.3f}s CPU, {k2} units {t2:.3f}s (as steep as degree {degree:.1f})')


SUBS.append(Sub('growth', check_growth, enumerate=growth_cases, shards_quick=2, shards_thorough=2))


# --------------------------------------------------------------------------- validation of repeated terms: the property tables are regular expressions,
# a keyword that one of them can match in two ways makes the time double with every repetition when the value does not match at the end

_WORDS = None


def validation_words():
    "keywords named anywhere in the profile tables (only a dictionary for the generator) plus one token of every kind"
    global _WORDS
    if _WORDS is None:
        import re
        import cssutils.profiles as P

        srcs = []
        for holder in (vars(P), vars(P.Profiles)):
            for v in holder.values():
                if isinstance(v, dict):
                    for x in v.values():
                        if isinstance(x, str):
                            srcs.append(x)
                        elif isinstance(x, dict):
                            srcs.extend(y for y in x.values() if isinstance(y, str))
        kw = set()
        for s in srcs:
            kw.update(re.findall(r'(?<![\\{a-zA-Z-])[a-zA-Z][a-zA-Z-]+(?![a-zA-Z}-])', s))
        _WORDS = sorted(kw) + ['1px', '0', '1', '1.5', '-1', '"a"', 'url(a)', '1%', '#fff', '#aabbcc', 'a', 'a-b', '1s', '1deg', '1em', 'rgb(1,2,3)',
                               'attr(a)', 'counter(a)', 'local(a)', 'format("a")', 'U+1-2', '\\1 ', 'é', '"\\""', '100', '1Hz', 'rect(0,0,0,0)']
    return _WORDS


def validation_props():
    return sorted(set(cssutils.profile.knownNames))


SEPS = [' ', ' ', ', ', ' / ', '', '-']
TAILS = [' x-y', '', ' 1q', ' "s"', ' 0', ' f(1)']
TOKENS = ['1px', '0', '1', '1.5', '-1', '"a"', 'url(a)', '1%', '#fff', 'a', '1s', '1deg', '1em', 'rgb(1,2,3)', 'attr(a)', 'counter(a)', '100',
          'url("a b")', 'url(a\\)b)', '"a b"', 'red', 'inset', 'none']
_OWN = {}


def own_words(prop):
    "keywords in the tables of this property itself (read from the compiled tables: only to aim the generator)"
    if prop not in _OWN:
        import re

        kw = set()
        for table in cssutils.profile._profilesProperties.values():
            pattern = getattr(table.get(prop), 'pattern', '')
            kw.update(w for w in re.findall(r'(?<![\\a-zA-Z-])[a-zA-Z][a-zA-Z-]+(?![a-zA-Z-])', pattern) if len(w) > 2)
        _OWN[prop] = sorted(kw)[:400] or ['inherit']
    return _OWN[prop]


def validation_cases(tier):
    words, props = validation_words(), validation_props()
    for p in props:
        own = own_words(p)
        if tier == 'thorough':
            ws = words
            for w in own + TOKENS:
                for sep in (', ', ' / ', ','):
                    yield {'prop': p, 'words': [w], 'sep': sep, 'tail': ' x-y', 'ctx': 'style'}
        else:
            # a few repeated words that most tables name in more than one part, and some of the property's own
            ws = sorted({'inherit', 'none', 'normal', 'center', 'red', 'auto', '1px', '0'} | set(own[:: max(1, len(own) // 6)]))
            for w in own[:: max(1, len(own) // 4)]:
                yield {'prop': p, 'words': [w], 'sep': ', ', 'tail': ' x-y', 'ctx': 'style'}
        for w in ws:
            yield {'prop': p, 'words': [w], 'sep': ' ', 'tail': ' x-y', 'ctx': 'style'}
        # groups of terms separated by commas (shadows, transitions, font families ...)
        yield {'prop': p, 'words': ['0', '0', 'red'], 'sep': ',', 'tail': ',1', 'ctx': 'style', 'grouped': True}
        yield {'prop': p, 'words': ['1px', 'a'], 'sep': ', ', 'tail': ' x-y', 'ctx': 'style', 'grouped': True}
        # one long word
        yield {'prop': p, 'words': ['ab'], 'sep': '', 'tail': ' 1q', 'ctx': 'style'}
        yield {'prop': p, 'words': ['a'], 'sep': '-', 'tail': ' 1q', 'ctx': 'style'}


@st.composite
def validation_strategy(draw):
    prop = draw(st.sampled_from(validation_props()))
    word = st.one_of(st.sampled_from(own_words(prop)), st.sampled_from(own_words(prop)), st.sampled_from(TOKENS), st.sampled_from(validation_words()))
    return {
        'prop': prop,
        'words': draw(st.lists(word, min_size=1, max_size=3)),
        'sep': draw(st.sampled_from(SEPS)),
        'tail': draw(st.sampled_from(TAILS)),
        'ctx': draw(st.sampled_from(['style', 'style', 'font-face', 'page'])),
        # the words form one group ('0 0 red') that is repeated with the separator between the groups
        'grouped': draw(st.booleans()),
    }


def _validation_text(case, k):
    ws = case['words']
    if case.get('grouped'):
        value = case['sep'].join([' '.join(ws)] * k) + case['tail']
    else:
        value = case['sep'].join(ws[i % len(ws)] for i in range(k)) + case['tail']
    decl = f'{case["prop"]}: {value}'
    if case['ctx'] == 'font-face':
        return '@font-face{' + decl + '}'
    if case['ctx'] == 'page':
        return '@page{' + decl + '}'
    return 'a{' + decl + '}'


def check_validation(case, ctx):
    import time

    saved = cssutils.log.raiseExceptions
    cssutils.log.raiseExceptions = False
    try:
        def cpu(k):
            t0 = time.process_time()
            sheet = cssutils.parseString(_validation_text(case, k))
            sheet.cssText
            sheet.valid
            return time.process_time() - t0

        with Records():
            with lib('validation'):
                # more and more terms until the time is measurable: a table that matches a term in b ways needs about b**k steps
                # (b=5: 0.1 s at k=8), a sound one stays in the millisecond range up to the last size
                slow = None
                for k in (6, 8, 10, 12, 14, 16, 20, 40):
                    t1 = cpu(k)
                    if t1 > 0.25:
                        slow = k
                        t2 = cpu(k + 2)
                        break
    finally:
        cssutils.log.raiseExceptions = saved
    ctx.event('validation:' + case['ctx'])
    ctx.case([case['prop'], case['words'], case['sep'], case['tail'], case['ctx']], True,
             {'prop': case['prop'], 'value': _validation_text(case, 3), 'cpu_40_terms': round(t1, 4)})
    # two more terms (at most a third more text): cubic behaviour stays below a factor 2.4, a doubling per term gives 4
    if slow and t2 > 3 * t1:
        raise Violation('growth:exponential-validation:' + case['prop'],
                        f'{_validation_text(case, 3)!r}: {slow} terms take {t1:.2f}s CPU, {slow + 2} terms {t2:.2f}s')


SUBS.append(Sub('validation', check_validation, enumerate=validation_cases, shards_quick=8, shards_thorough=16, budget_quick=120, budget_thorough=3000))
SUBS.append(Sub('validation-mixed', check_validation, strategy=validation_strategy(), quick=4000, thorough=300000, shards_quick=8, budget_quick=60))


# --------------------------------------------------------------------------- value soup: the soup sub rarely completes a declaration around a function

VALUE_FRAGS = [
    'var(x)', 'var(x, 1px)', 'var(x, 1px, 2px)', 'var(x,', 'var(,)', 'var(x y)', 'var(x, var(y, var(z, 1)))', 'var(x,,)', 'v\\ar(x)', 'VAR(X)',
    'r\\gb(1,2,3)', 'R\\GB(1,2,3)', '\\hsl(120,50%,50%)', 'hs\\la(1,2%,3%,.5)', '\\72gb(1,2,3)', 'rgb(1,2,3,4)', 'rgb()', 'rgb(a)', 'rgba(1,2,3)',
    'rgb(1 2 3)', 'rgb(1,2,3', 'hsl(0, ' + '9' * 400 + '%, 50%)', 'rgb(' + '9' * 400 + '%,1%,1%)', 'hsl(' + '9' * 400 + ',1%,1%)',
    'hsl(0, ' + '9' * 300 + '.5%, ' + '9' * 300 + '.5%)', 'rgba(1,2,3,' + '9' * 400 + ')', 'rgb(-1,256,1e3)', 'rgb(1.5,2,3)', 'rgb(+1,2,3)',
    '#abc\\a ', '#ab\\63 ', '#\\61 bc', '#abcd', '#ab', '#abcdefa', '#ABCDEF', '#abc\\', '#abg', '#\\', '#-', '#0000000',
    'c\\alc(1px + 2px)', 'calc(1px + var(x, 2px))', 'calc(calc(1px))', 'calc()', 'calc(1px +)', 'calc(+)', 'calc(1px*2)', 'calc(1px/0)', 'CALC( 1PX )',
    'u\\rl(x)', 'url(\\)', 'url()', 'url("")', 'url( )', 'url(a b)', 'url(a\\ b)', 'attr(x, y, z)', 'counter(a, b, c)', 'counters(a)', 'f(g(h(1)))',
    'f()', 'f(,)', 'f(;)', 'f({})', 'f([)', '1e999', '9' * 400, '9' * 400 + '.5', '-' + '9' * 400 + 'px', '.' + '0' * 400 + '1', '0' * 400, '1.', '.', '+.5',
    '+-1', '--1', '1px/2px', '/', ',', '1,,2', '!x', '!', 'U+1-2-3', 'u+??????1', 'u+110000', 'U+0-', 'expression(a(b)c)', 'progid:x.y(z=1)',
    '"\\', "'\\'", '"\\\n"', 'inherit inherit', 'inherit', 'red', '1px', '1PX', '1\\70x', '1p\\78', '1\\px', '50%', '%', '1%%', 'a\\(', '\\(', '\\', '\\2c',
    'a=b', 'x:y', '@x', '<!--', '-->', '{}', '[]', '()', '(', '[', ')', ']', 'a|b', '*', '~', '>', 'and(', 'not(', 'local(x)', 'format("x")',
    'rect(0,0,0,0)', 'rect(0 0 0 0)', 'rect(', 'counter(', 'attr(', 'url(', 'DXImageTransform.Microsoft.gradient(a=1,b=#fff)',
]
VALUE_CONTEXTS = ['a{x:%s}', 'a{color:%s}', 'a{margin:%s;top:0}', '@variables{y:%s}', '@variables{y:%s} a{top:var(y)}', '%s', 'x:%s', 'color:%s;',
                  '@media print{a{width:%s}}', '@page{margin:%s}', '@page{@top-left{content:%s}}', '@font-face{src:%s}', 'a{background:%s',
                  '@import url(x) %s;', '@media %s{a{top:0}}', 'a[b=%s]{top:0}', 'a:not(%s){top:0}', 'a{x:f(%s)}', 'a{x:var(z, %s)}', 'a{x:calc(1px + %s)}']
value_strategy = st.fixed_dictionaries({
    'frags': st.lists(st.sampled_from(VALUE_FRAGS), min_size=1, max_size=3),
    'sep': st.sampled_from([' ', ' ', ',', ', ', '/', '']),
    'ctx': st.integers(0, len(VALUE_CONTEXTS) - 1),
    'prio': st.sampled_from(['', '', ' !important', '!IMPORTANT', ' !x']),
    'cfg': CONFIG,
})


def check_value(case, ctx):
    value = case['sep'].join(case['frags']) + case['prio']
    text = VALUE_CONTEXTS[case['ctx']].replace('%s', value)
    cfg = dict(case['cfg'])
    if VALUE_CONTEXTS[case['ctx']] in ('x:%s', 'color:%s;', '%s'):
        cfg['entry'] = 'style' if VALUE_CONTEXTS[case['ctx']] != '%s' else cfg['entry']
    cost, recs, nrules = run_one(text, cfg, ctx)
    ctx.event('value-context:%d' % case['ctx'])
    ctx.case([text, sorted(cfg.items())], True, {'text': text[:200], 'cfg': cfg, 'cost': cost})


SUBS.append(Sub('values', check_value, strategy=value_strategy, quick=6000, thorough=400000, shards_quick=8, budget_quick=60))


from vlib.reported import reported_sub  # noqa: E402

SUBS.append(reported_sub('C01'))
