"""C19 — URL enumeration/replacement exact; flattening @imports preserves meaning."""

import codecs
import os
import posixpath
import shutil
import tempfile
import urllib.parse
import urllib.request
from collections import Counter

from hypothesis import strategies as st

import cssutils
import cssutils.script
from checks.c03_roundtrip import LOSSLESS, Prefs, flatten_nested_comments
from vlib import cssmodel as A
from vlib.reported import reported_sub
from vlib.runner import VERIF, Sub, Violation, frame_sig, lib

PROPERTY = 'C19'
RULE = (
    'urls: abstract stylesheets of the C02 generator (url() at the top level of values and inside functions, in style '
    'rules, @media, @page, margin boxes, @font-face; @import in string and url() form) rendered in a random spelling: '
    'getUrls must equal the list the model predicts (imports first, then document order; the parts of one @page rule as '
    'in the order own declarations, margin boxes); replaceUrls with a recording injective replacer is called once per predicted URL, getUrls afterwards is '
    'the mapped list (also after serialise+reparse), applying the inverse replacer gives back the original '
    'serialisation, the identity replacer leaves the serialisation unchanged, ignoreImportRules leaves imports alone, '
    'and the declaration-level dispatch only touches its declaration. flatten: import trees over a dict-backed virtual '
    'file system (2-6 files in 8 directories (server root included) on two hosts, depth up to 4, diamonds, import hrefs written relative / '
    'dot-relative / root-relative / scheme-relative / absolute, in string or url() form, media none / all / print / a '
    'list / a query with expression, missing targets, rule kinds style / @media / @font-face / @page / @namespace / '
    'comment / @variables (with url() values; compared as a multiset as they take no part in the cascade order), URL forms relative / parent / dot / query / fragment / percent-escaped / space / root / scheme-relative / '
    'absolute / data:). Oracle: a reference expansion of the tree given the set of @imports the result kept; every kept '
    '@import must be justified (target missing, or media present and the group holds something other than style rules '
    'and comments); every other rule must appear exactly once, in cascade order, under the media of its import edges, '
    'with every URL resolving (urljoin from the combined sheet) to the absolute URL it had in its own sheet; available '
    'targets are fetched exactly once. The same comparison after serialise+reparse (normal and minified, several target '
    'encodings) and through script.csscombine on a real temporary directory tree. Non-trivial: urls: >= 2 URLs with one '
    'nested in @media/@page/function; flatten: an import from another directory, a media edge or depth >= 2.'
    " URL forms also: query-only ('?img=logo'), directory ('.', './', 'img/..', '../') and scheme-like ('./a:b.png') references."
)
ASSUMPTIONS = [
    'urls: unknown at-rules and @namespace URIs are not "url() values of the sheet"; @variables are not generated',
    'flatten: fragment-only and empty url() values are not generated (they denote the document itself; no rewriting can be judged)',
    'flatten: two URLs are the same when scheme, host, percent-decoded normalised path, query and fragment agree',
    'flatten: position of a kept @import relative to inlined rules is not judged (an @import can only stand at the top), only its presence, target and media',
    'flatten: when a group holds @media/@page/@font-face rules both wrapping and keeping the @import are accepted; with @namespace or a kept @import inside only keeping is',
]

NOFETCH = lambda u: (None, '')  # noqa: E731

# =========================================================================== urls


def model_urls(m):
    """(imports, groups): groups = list of (ordered, [urls])"""
    imports = [s['href'] for s in m['stmts'] if s['k'] == 'import']
    groups = []

    def comp_urls(c, out):
        if c['t'] == 'url':
            out.append(c['v'])
        elif c['t'] == 'func':
            for x in c['args']['comps']:
                comp_urls(x, out)

    def block_urls(items):
        out = []
        for it in items:
            if it.get('k') == 'decl':
                for c in it['value']['comps']:
                    comp_urls(c, out)
        return out

    def stmt(s):
        k = s['k']
        if k == 'style' or k == 'fontface':
            groups.append((True, block_urls(s['block'])))
        elif k == 'page':
            # the declarations of the page itself, then its margin boxes (the order cssutils stores and writes them in)
            u = block_urls(s['block'])
            for mb in s['margins']:
                u += block_urls(mb['block'])
            groups.append((True, u))
        elif k == 'media':
            for r in s['rules']:
                stmt(r)

    for s in m['stmts']:
        stmt(s)
    return imports, groups


def match_groups(actual, imports, groups, what):
    exp_n = len(imports) + sum(len(g[1]) for g in groups)
    if len(actual) != exp_n:
        flat = imports + [u for g in groups for u in g[1]]
        missing = Counter(flat) - Counter(actual)
        extra = Counter(actual) - Counter(flat)
        kind = 'missed' if missing else 'extra'
        raise Violation(f'urls:{what}:{kind}', f'expected {flat}, got {actual}')
    if actual[:len(imports)] != imports:
        raise Violation(f'urls:{what}:imports-not-first', f'expected {imports} first, got {actual}')
    pos = len(imports)
    for ordered, urls in groups:
        got = actual[pos:pos + len(urls)]
        pos += len(urls)
        if (got != urls) if ordered else (Counter(got) != Counter(urls)):
            raise Violation(f'urls:{what}:order', f'expected {urls} got {got} in {actual}')


def fmap(u):
    return 'R/' + u


def finv(u):
    assert u.startswith('R/'), u
    return u[2:]


urls_strategy = st.fixed_dictionaries({'model': A.sheet(max_body=4), 'seed': st.integers(0, 2 ** 30),
                                       'mode': st.sampled_from(['map', 'map', 'identity', 'noimports', 'decl'])})


def has_unparsable_url(m):
    return False


def check_urls(case, ctx):
    m = case['model']
    flatten_nested_comments(m['stmts'])
    text = A.render_sheet(m, case['seed'])
    imports, groups = model_urls(m)
    flat = imports + [u for g in groups for u in g[1]]
    saved = cssutils.log.raiseExceptions
    cssutils.log.raiseExceptions = False
    try:
        try:
            sheet = cssutils.CSSParser(fetcher=NOFETCH).parseString(text)
            got = list(cssutils.getUrls(sheet))
        except Exception as e:  # noqa: BLE001
            raise Violation('crash:getUrls:' + frame_sig(e), f'{text[:300]!r}: {e!r}')
        match_groups(got, imports, groups, 'getUrls')
        with Prefs(**LOSSLESS):
            before = sheet.cssText
        calls = []

        def rec(f):
            def g(u):
                calls.append(u)
                return f(u)
            return g

        mode = case['mode']
        try:
            if mode == 'identity':
                cssutils.replaceUrls(sheet, rec(lambda u: u))
                with Prefs(**LOSSLESS):
                    after = sheet.cssText
                if after != before:
                    raise Violation('urls:identity-replacer-changes-sheet', f'{before[:300]!r} -> {after[:300]!r}')
                if Counter(calls) != Counter(flat):
                    raise Violation('urls:replacer-calls', f'called with {calls}, expected {flat}')
            elif mode == 'noimports':
                cssutils.replaceUrls(sheet, rec(fmap), ignoreImportRules=True)
                if Counter(calls) != Counter(flat[len(imports):]):
                    raise Violation('urls:replacer-calls-ignoreImportRules', f'called with {calls}, expected {flat[len(imports):]}')
                got2 = list(cssutils.getUrls(sheet))
                match_groups(got2, imports, [(o, [fmap(u) for u in us]) for o, us in groups], 'after-replace-noimports')
            elif mode == 'decl':
                decls = list(cssutils._style_declarations(sheet))
                if decls:
                    d = decls[case['seed'] % len(decls)]
                    own = [v.uri for v in cssutils._uri_values(d)]
                    cssutils.replaceUrls(d, rec(fmap))
                    if Counter(calls) != Counter(own):
                        raise Violation('urls:replacer-calls-declaration', f'called with {calls}, expected {own}')
                    now = [v.uri for v in cssutils._uri_values(d)]
                    if now != [fmap(u) for u in own]:
                        raise Violation('urls:declaration-replace', f'{own} -> {now}')
                    cssutils.replaceUrls(d, finv)
                    with Prefs(**LOSSLESS):
                        after = sheet.cssText
                    if after != before:
                        raise Violation('urls:replace-touches-something-else', f'{before[:300]!r} -> {after[:300]!r}')
            else:
                cssutils.replaceUrls(sheet, rec(fmap))
                if Counter(calls) != Counter(flat):
                    kind = 'more' if sum((Counter(calls) - Counter(flat)).values()) else 'fewer'
                    raise Violation('urls:replacer-calls:' + kind, f'called with {calls}, expected {flat}')
                got2 = list(cssutils.getUrls(sheet))
                match_groups(got2, [fmap(u) for u in imports], [(o, [fmap(u) for u in us]) for o, us in groups], 'after-replace')
                with Prefs(**LOSSLESS):
                    ser = sheet.cssText
                re_ = cssutils.CSSParser(fetcher=NOFETCH).parseString(ser)
                match_groups(list(cssutils.getUrls(re_)), [fmap(u) for u in imports],
                             [(o, [fmap(u) for u in us]) for o, us in groups], 'after-replace-reparsed')
                cssutils.replaceUrls(sheet, finv)
                with Prefs(**LOSSLESS):
                    after = sheet.cssText
                if after != before:
                    raise Violation('urls:replace-touches-something-else', f'{before[:300]!r} -> {after[:300]!r}')
        except Violation:
            raise
        except Exception as e:  # noqa: BLE001
            raise Violation('crash:replaceUrls:' + frame_sig(e), f'{text[:300]!r} mode {mode}: {e!r}')
    finally:
        cssutils.log.raiseExceptions = saved
    nested = any(s['k'] in ('media', 'page') for s in m['stmts']) or 'url(' in str([c for c in _funcs(m)])
    ctx.event('mode:' + case['mode'])
    ctx.case([text, case['mode']], len(flat) >= 2 and nested, {'css': text[:300], 'urls': flat, 'mode': case['mode']})


def _funcs(m):
    out = []

    def walk(o):
        if isinstance(o, dict):
            if o.get('t') == 'func':
                out.append(A.render_value(o['args'], A.R(0)))
            for v in o.values():
                walk(v)
        elif isinstance(o, list):
            for v in o:
                walk(v)

    walk(m)
    return out


# =========================================================================== flatten

HOST = 'http://h.example'
DIRS = ['/css/site/', '/css/site/a/', '/css/site/a/b/', '/css/site/c/', '/css/', '/css/up/', '/', '//other.example/lib/']
MEDIA = ['', 'all', 'print', 'screen, tv', 'screen and (min-width: 100px)']
MEDIA_CANON = {'': 'all', 'all': 'all', 'print': 'print', 'screen, tv': 'screen, tv',
               'screen and (min-width: 100px)': 'screen and (min-width: 100px)'}
URLFORMS = ['img/x.png', '../x.png', './y.png', 'x.png?v=1', 'x.svg#frag', 'x.png?a=b#c', 'x%20y.png', 'a b.png', '../../far.png',
            '/abs/x.png', '//cdn.example/x.png', 'http://cdn.example/p/x.png', 'data:image/png;base64,AAAA', 'sub/../z.png', 'é.png',
            '?img=logo', '.', './', 'img/..', '../', './a:b.png']
KINDS = ['style', 'style', 'style', 'media', 'fontface', 'page', 'namespace', 'comment', 'variables']


@st.composite
def tree(draw, local=False):
    n = draw(st.integers(2, 6))
    ndirs = len(DIRS) - 2 if local else len(DIRS)
    files = []
    for i in range(n):
        d = 0 if i == 0 else draw(st.integers(0, ndirs - 1))
        imports = []
        if i < n - 1 or draw(st.booleans()):
            for _ in range(draw(st.integers(0 if i else 1, 3))):
                to = (draw(st.integers(i + 1, n - 1)) if draw(st.integers(0, 4)) else None) if i < n - 1 else None
                imports.append({'to': to, 'form': draw(st.sampled_from(['rel', 'rel', 'dotrel', 'root', 'scheme', 'abs'])),
                                'media': draw(st.sampled_from(MEDIA)), 'syntax': draw(st.sampled_from(['string', 'url'])),
                                'missdir': draw(st.integers(0, ndirs - 1))})
        rules = []
        for r in range(draw(st.integers(0, 3))):
            rules.append({'k': draw(st.sampled_from(KINDS)),
                          'urls': draw(st.lists(st.sampled_from(URLFORMS), min_size=0, max_size=2)),
                          'quote': draw(st.sampled_from(['', '"', "'"]))})
        files.append({'dir': d, 'imports': imports, 'rules': rules, 'charset': draw(st.booleans()), 'open_end': draw(st.integers(0, 3)) == 0})
    return {'files': files}


def dir_url(d):
    p = DIRS[d]
    return ('http:' + p) if p.startswith('//') else HOST + p


def file_url(t, i, base=None):
    if base is not None:
        return base + DIRS[t['files'][i]['dir']][len('/css/'):] + 'f%d.css' % i
    return dir_url(t['files'][i]['dir']) + 'f%d.css' % i


def written_href(src_url, dst_url, form):
    s, d = urllib.parse.urlsplit(src_url), urllib.parse.urlsplit(dst_url)
    samehost = (s.scheme, s.netloc) == (d.scheme, d.netloc)
    if not samehost and form in ('rel', 'dotrel', 'root'):
        form = 'abs'
    if d.scheme == 'file' and form == 'scheme':
        form = 'root'
    if form in ('rel', 'dotrel'):
        rel = posixpath.relpath(d.path, posixpath.dirname(s.path))
        return rel if form == 'rel' else './' + rel
    if form == 'root':
        return d.path
    if form == 'scheme':
        return '//' + d.netloc + d.path
    return dst_url


def render_file(t, i, base=None):
    f = t['files'][i]
    me = file_url(t, i, base)
    out = ['@charset "utf-8";'] if f['charset'] else []
    for n, imp in enumerate(f['imports']):
        href = written_href(me, edge_target(t, i, n, base), imp['form'])
        h = '"%s"' % href if imp['syntax'] == 'string' else 'url(%s)' % href
        out.append('@import %s%s;' % (h, (' ' + imp['media']) if imp['media'] else ''))
    body = []
    for n, r in enumerate(f['rules']):
        rid = 'f%dr%d' % (i, n)
        decls = 'x-id: %s' % rid
        for j, u in enumerate(r['urls']):
            q = r['quote'] or ('"' if (' ' in u) else '')
            decls += '; %s: url(%s%s%s)' % (['background-image', 'src', 'cursor'][j % 3], q, u, q)
        k = r['k']
        if k == 'style':
            body.append('.%s { %s }' % (rid, decls))
        elif k == 'media':
            body.append('@media tv { .%s { %s } }' % (rid, decls))
        elif k == 'fontface':
            body.append('@font-face { %s }' % decls)
        elif k == 'page':
            body.append('@page { %s }' % decls)
        elif k == 'variables':
            # (allowed before the first style / @media / @page / @font-face rule only)
            out.append('@variables { x-id: %s%s }' % (rid, ''.join('; u%d: url(%s%s%s)' % (j, r['quote'] or ('"' if ' ' in u else ''), u, r['quote'] or ('"' if ' ' in u else '')) for j, u in enumerate(r['urls']))))
        elif k == 'namespace':
            out.append('@namespace %s "http://ns.example/%s";' % (rid, rid))
        elif k == 'comment':
            body.append('/* %s */' % rid)
    text = '\n'.join(out + body)
    if f.get('open_end') and body and body[-1].endswith('}') and i != 0:
        # the end of the input closes what is open
        text = text[:-1].rstrip()
        if text.endswith('}'):
            text = text[:-1].rstrip()  # @media ... { ... { ...
    return text


def edge_target(t, i, n, base=None):
    imp = t['files'][i]['imports'][n]
    if imp['to'] is None:
        if base is not None:
            return base + DIRS[imp['missdir']][len('/css/'):] + 'missing%d_%d.css' % (i, n)
        return dir_url(imp['missdir']) + 'missing%d_%d.css' % (i, n)
    return file_url(t, imp['to'], base)


def norm_url(u):
    s = urllib.parse.urlsplit(u)
    if s.scheme == 'data':
        return u
    path = urllib.parse.unquote(s.path)
    return (s.scheme, s.netloc, path, s.query, s.fragment)


def expansion(t, kept, base=None):
    """reference flattening: list of entries; kept = set of (file, n) import edges left as @import"""
    out = []

    def expand(i, ctx):
        f = t['files'][i]
        me = file_url(t, i, base)
        for n, imp in enumerate(f['imports']):
            m = MEDIA_CANON[imp['media']]
            if (i, n) in kept:
                out.append(('import', ctx, norm_url(edge_target(t, i, n, base)), m))
            else:
                expand(imp['to'], ctx + ((m,) if m != 'all' else ()))
        for n, r in enumerate(f['rules']):
            if r['k'] in ('namespace', 'comment'):
                continue
            c = ctx + (('tv',) if r['k'] == 'media' else ())
            kind = 'style' if r['k'] == 'media' else r['k']
            out.append((kind, c, 'f%dr%d' % (i, n), tuple(norm_url(urllib.parse.urljoin(me, u)) for u in r['urls'])))

    expand(0, ())
    return out


def group_kinds(t, i, kept):
    """rule kinds in the expansion of file i (given kept)"""
    kinds = set()
    f = t['files'][i]
    for n, imp in enumerate(f['imports']):
        if (i, n) in kept or imp['to'] is None:
            kinds.add('import')
        elif MEDIA_CANON[imp['media']] != 'all':
            kinds.add('media')
        else:
            kinds |= group_kinds(t, imp['to'], kept)
    for r in f['rules']:
        kinds.add(r['k'])
    return kinds


def entries_of(sheet, what):
    base = sheet.href
    out = []

    def urls_of(style):
        return tuple(norm_url(urllib.parse.urljoin(base, v.uri)) for v in cssutils._uri_values(style))

    def rid(style, r):
        v = style.getPropertyValue('x-id')
        if not v:
            raise Violation(f'flatten:{what}:rule-without-identity', r.cssText[:200])
        return v

    def walk(rules, ctx):
        for r in rules:
            if r.type == r.STYLE_RULE:
                out.append(('style', ctx, rid(r.style, r), urls_of(r.style)))
            elif r.type == r.FONT_FACE_RULE:
                out.append(('fontface', ctx, rid(r.style, r), urls_of(r.style)))
            elif r.type == r.PAGE_RULE:
                out.append(('page', ctx, rid(r.style, r), urls_of(r.style)))
            elif r.type == r.VARIABLES_RULE:
                vd = r.variables
                ident = vd.getVariableValue('x-id')
                if not ident:
                    raise Violation(f'flatten:{what}:rule-without-identity', r.cssText[:200])
                vals = []
                for name in sorted(k for k in vd.keys() if k != 'x-id'):
                    pv = cssutils.css.PropertyValue(vd.getVariableValue(name))
                    vals.extend(norm_url(urllib.parse.urljoin(base, v.uri)) for v in pv if v.type == 'URI')
                out.append(('variables', ctx, ident, tuple(vals)))
            elif r.type == r.MEDIA_RULE:
                walk(r.cssRules, ctx + (r.media.mediaText,))
            elif r.type == r.IMPORT_RULE:
                out.append(('import', ctx, norm_url(urllib.parse.urljoin(base, r.href)), r.media.mediaText))
            elif r.type in (r.COMMENT, r.NAMESPACE_RULE, r.CHARSET_RULE):
                pass
            else:
                raise Violation(f'flatten:{what}:unexpected-rule', r.cssText[:200])

    walk(sheet.cssRules, ())
    return out


def compare(t, got, what, base=None):
    # which imports did the result keep?
    avail = Counter(e[1:] for e in got if e[0] == 'import')
    kept = set()

    def choose(i):
        for n, imp in enumerate(t['files'][i]['imports']):
            key = ((), norm_url(edge_target(t, i, n, base)), MEDIA_CANON[imp['media']])
            if avail[key] > 0:
                avail[key] -= 1
                kept.add((i, n))
            elif imp['to'] is None:
                raise Violation(f'flatten:{what}:import-of-missing-target-lost',
                                f'@import of {edge_target(t, i, n, base)} ({imp["media"]!r}) not in the result: {[e for e in got if e[0] == "import"]}')
            else:
                choose(imp['to'])

    choose(0)
    left = +avail
    if left:
        raise Violation(f'flatten:{what}:unknown-import-in-result', f'{dict(left)}; all entries {got}')
    # every kept import needs a reason
    for (i, n) in sorted(kept):
        imp = t['files'][i]['imports'][n]
        if imp['to'] is None:
            continue
        if MEDIA_CANON[imp['media']] == 'all':
            raise Violation(f'flatten:{what}:available-import-kept', f'file {i} import {n}')
        kinds = group_kinds(t, imp['to'], kept)
        if not (kinds - {'style', 'comment'}):
            raise Violation(f'flatten:{what}:wrappable-import-kept', f'file {i} import {n}: group has only {kinds}')
    exp = expansion(t, kept, base)
    # @variables rules take no part in the cascade order of the rules (add() keeps them in front): compared as a multiset
    gv = Counter(e for e in got if e[0] == 'variables')
    xv = Counter(e for e in exp if e[0] == 'variables')
    if gv != xv:
        lost, extra = xv - gv, gv - xv
        if Counter(e[2] for e in gv) != Counter(e[2] for e in xv):
            raise Violation(f'flatten:{what}:{"rule-lost" if lost else "rule-duplicated"}', f'@variables rules: expected {sorted(xv)}, got {sorted(gv)}')
        raise Violation(f'flatten:{what}:url-resolves-elsewhere:variables', f'@variables rules: expected {sorted(lost)}, got {sorted(extra)}')
    g = [e for e in got if e[0] not in ('import', 'variables')]
    x = [e for e in exp if e[0] not in ('import', 'variables')]
    if g != x:
        gi, xi = [e[2] for e in g], [e[2] for e in x]
        if Counter(gi) != Counter(xi):
            lost = Counter(xi) - Counter(gi)
            kind = 'rule-lost' if lost else 'rule-duplicated'
            raise Violation(f'flatten:{what}:{kind}', f'expected {xi}, got {gi}')
        if gi != xi:
            raise Violation(f'flatten:{what}:cascade-order', f'expected {xi}, got {gi}')
        for a, b in zip(g, x):
            if a[1] != b[1]:
                raise Violation(f'flatten:{what}:media-context', f'{a[2]}: under {a[1]}, expected {b[1]}')
            if a[3] != b[3]:
                d = [(p, q) for p, q in zip(a[3], b[3]) if p != q]
                kind = 'other'
                if d:
                    p, q = d[0]
                    if p == q[:3] + p[3:] and (p[3], p[4]) != (q[3], q[4]):
                        kind = 'query-or-fragment'
                    elif p[1] != q[1]:
                        kind = 'host'
                    elif '%' in p[2] or '%' in q[2]:
                        kind = 'percent-escape'
                    else:
                        kind = 'path'
                raise Violation(f'flatten:{what}:url-resolves-elsewhere:{kind}', f'{a[2]}: {a[3]} expected {b[3]}')
            if a[0] != b[0]:
                raise Violation(f'flatten:{what}:rule-kind', f'{a} vs {b}')
    return kept


flatten_strategy = st.fixed_dictionaries({'tree': tree(), 'minify': st.booleans(),
                                          'encoding': st.sampled_from([None, 'ascii', 'utf-8', 'latin-1', 'utf-16'])})


def depth_of(t, i=0):
    return 1 + max([depth_of(t, imp['to']) for imp in t['files'][i]['imports'] if imp['to'] is not None] or [0])


def reachable_edges(t):
    out = []

    def go(i):
        for n, imp in enumerate(t['files'][i]['imports']):
            out.append((i, n))
            if imp['to'] is not None:
                go(imp['to'])

    go(0)
    return out


def check_flatten(case, ctx):
    t = case['tree']
    fs = {file_url(t, i): render_file(t, i) for i in range(len(t['files']))}
    log = []

    def fetcher(u):
        log.append(u)
        if u in fs:
            return (None, fs[u].encode('utf-8'))
        return None

    saved = cssutils.log.raiseExceptions
    cssutils.log.raiseExceptions = False
    saved_default = cssutils.util._defaultFetcher
    cssutils.util._defaultFetcher = fetcher  # sheets made by resolveImports have no fetcher of their own
    try:
        main = file_url(t, 0)
        try:
            sheet = cssutils.CSSParser(fetcher=fetcher).parseString(fs[main], href=main)
        except Exception as e:  # noqa: BLE001
            raise Violation('crash:flatten-parse:' + frame_sig(e), f'{fs}: {e!r}')
        nparse = len(log)
        try:
            flat = cssutils.resolveImports(sheet)
        except Exception as e:  # noqa: BLE001
            raise Violation('crash:resolveImports:' + frame_sig(e), f'{fs}: {e!r}')
        if flat.href != main:
            raise Violation('flatten:href-of-result', f'{flat.href!r} vs {main!r}')
        try:
            got = entries_of(flat, 'dom')
            kept = compare(t, got, 'dom')
            for (i, n) in reachable_edges(t):
                imp = t['files'][i]['imports'][n]
                if (i, n) in kept:
                    ctx.event('edge:kept-missing' if imp['to'] is None else 'edge:kept-unwrappable')
                elif imp['to'] is not None:
                    ctx.event('edge:inlined' if MEDIA_CANON[imp['media']] == 'all' else 'edge:wrapped')
            expect = Counter(edge_target(t, i, n) for i, n in reachable_edges(t) if t['files'][i]['imports'][n]['to'] is not None)
            seen = Counter(u for u in log if u in fs)
            if seen != expect:
                when = 'while-flattening' if Counter(u for u in log[:nparse] if u in fs) == expect else 'while-parsing'
                raise Violation('flatten:available-target-not-fetched-once:' + when, f'fetched {dict(seen)}, import edges {dict(expect)}')
            ctx.event('fetches-of-missing-targets:%d' % sum(1 for u in log if u not in fs))
            # the flat sheet survives serialisation
            ser = cssutils.serialize.CSSSerializer()
            if case['minify']:
                ser.prefs.useMinified()
            # (@variables rules are part of the compared structure: written as they are)
            ser.prefs.resolveVariables = False
            old = cssutils.ser
            cssutils.setSerializer(ser)
            try:
                if case['encoding']:
                    flat.encoding = case['encoding']
                text = flat.cssText
                re_ = cssutils.CSSParser(fetcher=lambda u: None).parseString(text, href=main)
            except Exception as e:  # noqa: BLE001
                raise Violation('crash:flatten-serialise:' + frame_sig(e), f'{fs}: {e!r}')
            finally:
                cssutils.setSerializer(old)
            compare(t, entries_of(re_, 'reparsed'), 'reparsed')
        except Violation as v:
            raise Violation(v.sig, f'{v.msg}\n   files: {fs}')
    finally:
        cssutils.log.raiseExceptions = saved
        cssutils.util._defaultFetcher = saved_default
    edges = reachable_edges(t)
    otherdir = any(t['files'][i]['imports'][n]['to'] is not None and t['files'][t['files'][i]['imports'][n]['to']]['dir'] != t['files'][i]['dir']
                   for i, n in edges)
    mediaedge = any(MEDIA_CANON[t['files'][i]['imports'][n]['media']] != 'all' for i, n in edges)
    d = depth_of(t)
    ctx.event('depth:%d' % d)
    ctx.event('edges:%d' % min(len(edges), 6))
    ctx.case(fs, otherdir or mediaedge or d >= 3, {'files': fs, 'flat': text.decode(flat.encoding, 'replace')[:600] if isinstance(text, bytes) else text[:600]})
    # last, so that the listed finding does not hide anything above
    missing = Counter(u for u in log if u not in fs)
    edges_to = Counter(edge_target(t, i, n) for i, n in edges if t['files'][i]['imports'][n]['to'] is None)
    parsing = Counter(u for u in log[:nparse] if u not in fs)
    twice = {u: c for u, c in parsing.items() if c > edges_to[u]}
    if twice:
        raise Violation('flatten:missing-target-fetched-repeatedly-while-parsing', f'{twice} (import edges: {dict(edges_to)}); files {fs}')
    again = {u: c for u, c in missing.items() if c > edges_to[u]}
    if again:
        raise Violation('flatten:missing-target-fetched-again-while-flattening', f'{again} (import edges: {dict(edges_to)}); {nparse} requests while parsing, {len(log) - nparse} while flattening; files {fs}')


combine_strategy = st.fixed_dictionaries({'tree': tree(local=True), 'minify': st.booleans(),
                                          'encoding': st.sampled_from([None, 'ascii', 'utf-8', 'latin-1', 'utf-16'])})


def check_combine(case, ctx):
    t = case['tree']
    work = os.path.join(VERIF, '.work')
    os.makedirs(work, exist_ok=True)
    root = tempfile.mkdtemp(prefix='c19-', dir=work)
    saved = cssutils.log.raiseExceptions
    cssutils.log.raiseExceptions = False
    oldser = cssutils.ser
    try:
        base = 'file://' + urllib.request.pathname2url(root) + '/css/'
        paths = {}
        for i in range(len(t['files'])):
            u = file_url(t, i, base)
            p = urllib.request.url2pathname(urllib.parse.urlsplit(u).path)
            os.makedirs(os.path.dirname(p), exist_ok=True)
            with open(p, 'wb') as f:
                f.write(render_file(t, i, base).encode('utf-8'))
            paths[i] = p
        try:
            out = cssutils.script.csscombine(path=paths[0], minify=case['minify'], targetencoding=case['encoding'], resolveVariables=False)
        except Exception as e:  # noqa: BLE001
            raise Violation('crash:csscombine:' + frame_sig(e), f'{[render_file(t, i, base) for i in range(len(t["files"]))]}: {e!r}')
        if cssutils.ser is not oldser:
            raise Violation('combine:global-serializer-not-restored', '')
        if not isinstance(out, bytes):
            raise Violation('combine:result-not-bytes', repr(type(out)))
        enc = case['encoding'] or 'utf-8'
        try:
            out.decode(enc)
        except UnicodeDecodeError as e:
            raise Violation('combine:not-decodable-in-target-encoding', f'{enc}: {e}')
        try:
            main = file_url(t, 0, base)
            re_ = cssutils.CSSParser(fetcher=lambda u: None).parseString(out, href=main)
            if codecs.lookup(re_.encoding).name != codecs.lookup(enc).name:
                raise Violation('combine:target-encoding-not-declared', f'{re_.encoding} vs {enc}')
            compare(t, entries_of(re_, 'combine'), 'combine', base)
        except Violation as v:
            raise Violation(v.sig, f'{v.msg}\n   files: {[render_file(t, i, base) for i in range(len(t["files"]))]}\n   out: {out[:600]!r}'.replace(root, '<root>'))
    finally:
        cssutils.setSerializer(oldser)
        cssutils.log.raiseExceptions = saved
        shutil.rmtree(root, ignore_errors=True)
    edges = reachable_edges(t)
    ctx.event('depth:%d' % depth_of(t))
    ctx.case([render_file(t, i) for i in range(len(t['files']))] + [case['minify'], case['encoding']],
             len(edges) >= 2, {'files': [render_file(t, i) for i in range(len(t['files']))], 'out': out.decode(enc, 'replace')[:600]})


SUBS = [
    Sub('urls', check_urls, strategy=urls_strategy, quick=1500, thorough=150000, shards_quick=8),
    Sub('flatten', check_flatten, strategy=flatten_strategy, quick=1500, thorough=150000, shards_quick=8),
    Sub('combine', check_combine, strategy=combine_strategy, quick=300, thorough=20000, shards_quick=8),
]


# --------------------------------------------------------------------------- listed findings


def listed_cases(tier):
    yield {'tag': 'variables'}
    yield {'tag': 'namespaces'}


def check_listed(case, ctx):
    saved = cssutils.log.raiseExceptions
    cssutils.log.raiseExceptions = False
    old = cssutils.ser.prefs.resolveVariables
    try:
        ctx.case(case['tag'], True, case)
        if case['tag'] == 'variables':
            fs = {'http://h/sub/a.css': '@variables { bg: url(img/v.png) } q { background: var(bg); cursor: url(img/c.png), auto }'}
            main = '@import "sub/a.css";'
            sheet = cssutils.CSSParser(fetcher=lambda u: (None, fs[u]) if u in fs else None).parseString(main, href='http://h/m.css')
            imp = sheet.cssRules[0].styleSheet
            got = list(cssutils.getUrls(imp))
            cssutils.ser.prefs.resolveVariables = True
            with lib('flatten'):
                flat = cssutils.resolveImports(sheet).cssText.decode()
            if 'img/v.png' not in got or 'url(sub/img/v.png)' not in flat:
                raise Violation('listed:url-in-variables-not-enumerated', f'getUrls of the imported sheet: {got}; flattened: {flat!r}')
        else:
            fs = {'http://h/a.css': '@namespace x "urn:one"; x|q { top: 0 }', 'http://h/b.css': '@namespace x "urn:two"; x|q { left: 0 }'}
            sheet = cssutils.CSSParser(fetcher=lambda u: (None, fs[u]) if u in fs else None).parseString('@import "a.css"; @import "b.css";', href='http://h/m.css')
            with lib('flatten'):
                flat = cssutils.resolveImports(sheet)
                re_ = cssutils.parseString(flat.cssText)
            uris = []
            for r in re_.cssRules:
                if r.type == r.STYLE_RULE:
                    for item in r.selectorList[0].seq:
                        if isinstance(item.value, tuple):
                            uris.append(item.value[0])
            if uris != ['urn:one', 'urn:two'] and not any(r.type == r.IMPORT_RULE for r in flat.cssRules):
                raise Violation('listed:flattening-merges-namespace-scopes', f'{flat.cssText!r}: the two q rules select in {uris}')
    finally:
        cssutils.ser.prefs.resolveVariables = old
        cssutils.log.raiseExceptions = saved


SUBS.append(Sub('listed', check_listed, enumerate=listed_cases, shards_quick=1, shards_thorough=1))


SUBS.append(reported_sub('C19'))
