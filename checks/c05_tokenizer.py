"""C05 — Tokenizer: total, lossless, position-accurate, classifies by the grammar."""

import re
import xml.dom

from hypothesis import strategies as st

import cssutils
from cssutils.tokenize2 import Tokenizer
from vlib.runner import Sub, Violation, lib

PROPERTY = 'C05'
HANG_WATCH = 20  # seconds of CPU on one case after which the runner kills the worker and reports hang:cpu-bound
RULE = (
    'tiling: texts = concatenations of 1..14 fragments from an alphabet of single characters '
    '(all delimiters, white space/line-break conventions, backslash, BOM characters, NUL, non-ASCII, astral, '
    'arbitrary code points) and multi-character fragments (escapes with 1-6 hex digits and every terminator, '
    'url(, comment openers/closers, @charset, CDO/CDC, unicode-range starts), tokenised in fullsheet on/off; '
    'oracle = offsets from (line,col) tile the text and values equal spans decoded by an independent escape decoder. '
    'seq: sequences of 1..10 grammar tokens of every kind rendered with unambiguous separators; oracle = exact '
    'kinds and values come back. errpos: one bad token planted in a well-formed sheet parsed by a raising parser; '
    'oracle = exception line/col/message point at an offset where the reported value starts. '
    'runs: every one of 22 openers (comment, string, url(, backslash, @, #, u+, number, CDO start ...) followed by a run of 40 / 400 / '
    '4000 (thorough 20000) copies of one of 21 characters or escapes and one of 7 tails: same tiling oracle, and the runner kills a '
    'worker that is still computing on one case after 20 s of CPU time (hang:cpu-bound) - regular-expression backtracking is the '
    'only way this tokenizer can fail to terminate. '
    'keywords: every letter of url( and of the reserved at-keywords written as a hex escape (lower / upper case digits, 2 or 6 digits, every '
    'terminator): still one URI / *_SYM token. '
    'complete: a prefix, then an unterminated url( (13 spellings incl. hex and simple escapes of u/r/l, optional white space, bare / '
    'quoted / quoted-and-closed content), string or comment at the end of the text, full-sheet mode; oracle = same token kinds, '
    'values and positions as for the explicitly terminated text, exactly one EOF. '
    'Non-trivial: >=3 tokens of >=2 kinds and (an escape, a multi-line token, an end-of-input completion or a '
    'non-ASCII character); distinct by text.'
    " The end marker of a full sheet stands behind the input (line exactly, column exactly unless a string / url( was completed); at-keywords with an escaped backslash in the name are NOT the reserved symbol, nine escaped spellings of 'and(' give IDENT + '('; an unterminated construct at the end is completed with comments switched off as well; a kept exception object keeps its own line/col after later reports; quoted url() bodies contain line continuations."
)
ASSUMPTIONS = [
    'simple (non-hex) backslash pairs are accepted undecoded in token values (cssutils keeps them; the statement only fixes hex escapes)',
    'COMMENT and at-keyword values may be either the raw span or the escape-decoded span',
    'EOF token position is not asserted after an end-of-input completion',
    'hex escapes above U+10FFFF are accepted undecoded',
]

HEX = '0123456789abcdefABCDEF'
WS1 = ' \t\r\n\f'

LITERAL = {'S', 'NUMBER', 'PERCENTAGE', 'CHAR', 'INCLUDES', 'DASHMATCH', 'PREFIXMATCH',
           'SUFFIXMATCH', 'SUBSTRINGMATCH', 'CDO', 'CDC', 'BOM'}
DECODED = {'IDENT', 'FUNCTION', 'DIMENSION', 'HASH', 'URI', 'UNICODE-RANGE'}
DECODED_STR = {'STRING', 'INVALID'}
EITHER = {'COMMENT', 'ATKEYWORD', 'CHARSET_SYM', 'FONT_FACE_SYM', 'MEDIA_SYM', 'IMPORT_SYM',
          'NAMESPACE_SYM', 'PAGE_SYM', 'VARIABLES_SYM'}


def decode(span, string=False):
    """Independent CSS escape decoder (hex escapes; in strings: escaped newline removed)."""
    out = []
    i, n = 0, len(span)
    while i < n:
        c = span[i]
        if c != '\\' or i + 1 >= n:
            out.append(c)
            i += 1
            continue
        d = span[i + 1]
        if d in HEX:
            j = i + 1
            while j < n and j - (i + 1) < 6 and span[j] in HEX:
                j += 1
            num = int(span[i + 1:j], 16)
            k = j
            if span[k:k + 2] == '\r\n':
                k += 2
            elif k < n and span[k] in WS1:
                k += 1
            if num <= 0x10FFFF:
                out.append(chr(num))
            else:
                out.append(span[i:k])
            i = k
        elif string and d in '\n\r\f':
            i += 3 if span[i + 1:i + 3] == '\r\n' else 2
        else:
            out.append(c)
            out.append(d)
            i += 2
    return ''.join(out)


def toks(text, fullsheet, doComments=True):
    with lib('tokenize'):
        return list(Tokenizer(doComments=doComments).tokenize(text, fullsheet=fullsheet))


def line_starts(text):
    starts = [0]
    for i, ch in enumerate(text):
        if ch == '\n':
            starts.append(i + 1)
    return starts


def check_tiling(case, ctx):
    text, fullsheet = case['text'], case['fullsheet']
    tokens = toks(text, fullsheet)
    try:
        _tile(text, fullsheet, tokens, ctx, 0)
    except Violation as v:
        if tokens and tokens[0][0] == 'BOM' and v.sig.startswith(('pos:', 'tiling:', 'eof:position')):
            # known finding: BOM characters do not advance the column.  If everything
            # else is right once line-1 columns are shifted, report exactly that.
            _tile(text, fullsheet, tokens, _NullCtx(), len(tokens[0][1]))
            raise Violation('pos:column-not-advanced-by-bom', f'{tokens[:3]!r} in {text!r}')
        raise


def _tile(text, fullsheet, tokens, ctx, bomshift):
    for t in tokens:
        if not (isinstance(t, tuple) and len(t) == 4 and isinstance(t[0], str)
                and isinstance(t[1], str) and isinstance(t[2], int) and isinstance(t[3], int)):
            raise Violation('shape:token-tuple', repr(t))
    body = tokens
    if fullsheet:
        if not tokens or tokens[-1][0] != 'EOF' or tokens[-1][1] != '':
            raise Violation('eof:missing', repr(tokens[-3:]))
        body = tokens[:-1]
        # the end marker stands behind the input (a completed string / url( counts the characters added for it)
        end_line = 1 + text.count('\n')
        end_col = len(text) - (text.rfind('\n') + 1) + 1
        completed = bool(body) and body[-1][0] in ('STRING', 'URI')
        eof = tokens[-1]
        if eof[2] != end_line or not (end_col - bomshift * (end_line == 1) <= eof[3] <= end_col + (2 if completed else 0)):
            raise Violation('eof:position', f'end marker at {eof[2]}:{eof[3]}, the input {text[-30:]!r} ends at {end_line}:{end_col}')
    if any(t[0] == 'EOF' for t in body):
        raise Violation('eof:duplicate-or-not-last', repr([t[0] for t in tokens]))
    starts = line_starts(text)
    offs = []
    for t in body:
        ln, col = t[2], t[3]
        if not (1 <= ln <= len(starts)) or col < 1:
            raise Violation('pos:out-of-range', f'{t!r} in {text!r}')
        offs.append(starts[ln - 1] + col - 1 + (bomshift if ln == 1 and t[0] != 'BOM' else 0))
    kinds = set()
    completed = False
    has_escape = multiline = False
    for i, t in enumerate(body):
        o = offs[i]
        end = offs[i + 1] if i + 1 < len(body) else len(text)
        if i == 0 and o != 0:
            raise Violation('tiling:first-not-at-0', f'{t!r} in {text!r}')
        if end <= o:
            raise Violation('tiling:not-increasing', f'token {i} {t!r} offset {o}, next {end} in {text!r}')
        span = text[o:end]
        kind, val = t[0], t[1]
        kinds.add(kind)
        last = i + 1 == len(body)
        if kind == 'S' and any(c not in WS1 for c in val):
            raise Violation('class:S-contains-non-css-whitespace', f'{t!r} in {text!r}')
        if kind == 'S' and end < len(text) and text[end] in WS1:
            raise Violation('class:S-not-maximal', f'{t!r} in {text!r}')
        if kind in LITERAL:
            ok = val == span
        elif kind in DECODED:
            # (the string inside url("...") is a string: a line continuation in it disappears)
            isuri = kind == 'URI'
            ok = val == decode(span, isuri)
            if not ok and last and fullsheet and kind == 'URI':
                ok = any(val == decode(span + c, True) for c in (')', '")', "')"))
                completed = completed or ok
        elif kind in DECODED_STR:
            ok = val == decode(span, True)
            if not ok and last and fullsheet and kind == 'STRING' and span[:1] in '"\'':
                ok = val == decode(span, True) + span[0] or val == decode(span + span[0], True)
                completed = completed or ok
        elif kind in EITHER:
            ok = val in (span, decode(span))
            if not ok and last and fullsheet and kind == 'COMMENT':
                ok = val in (span + '*/', decode(span + '*/'))
                completed = completed or ok
        else:
            raise Violation('kind:unknown', f'{t!r}')
        if not ok:
            sig = 'value:' + kind
            if '\\\\' in span:
                sig += ':after-escaped-backslash'
            raise Violation(sig, f'token {t!r} span {span!r} expected {decode(span, kind in DECODED_STR or kind == "URI")!r} in {text!r}')
        if '\\' in span:
            has_escape = True
        if '\n' in span and kind != 'S':
            multiline = True
    if not body and text:
        raise Violation('tiling:no-tokens', repr(text))
    if fullsheet and not completed:
        e = tokens[-1]
        ln, col = e[2], e[3]
        if not (1 <= ln <= len(starts)) or starts[ln - 1] + col - 1 + (bomshift if ln == 1 else 0) != len(text):
            raise Violation('pos:eof', f'EOF {e!r} but len {len(text)} in {text!r}')
    # comment parsing off == on minus COMMENT tokens (when nothing was completed as a comment)
    if not (completed and body and body[-1][0] == 'COMMENT'):
        t2 = toks(text, fullsheet, doComments=False)
        exp2 = []
        for t in tokens:
            if t[0] == 'COMMENT':
                continue
            if t[0] == 'S' and exp2 and exp2[-1][0] == 'S':
                continue  # white space on both sides of an omitted comment is reported as one S token
            exp2.append(t)
        if t2 != exp2:
            raise Violation('comments-off:differs', f'{t2!r} vs {tokens!r}')
    nonascii = any(ord(c) > 127 for c in text)
    nt = len(body) >= 3 and len(kinds) >= 2 and (has_escape or multiline or completed or nonascii)
    ctx.event('fullsheet' if fullsheet else 'plain')
    if completed:
        ctx.event('completed')
    if has_escape:
        ctx.event('escape')
    if multiline:
        ctx.event('multiline-token')
    for k in kinds:
        ctx.event('kind:' + k)
    ctx.case(text, nt, {'text': text, 'fullsheet': fullsheet, 'kinds': [t[0] for t in tokens][:12]})


CHARS = list('abcdefgulrUAF019' + '\\\\\\"\'/*()@#+-.%!<>=~|^$?{}[];:,_& ' + ' \t\n\r\f'
             + '\x00\x7f\xfe\xff\xef\xbb\xbf\ufeff\u00e9\u20ac\U0001F600')
FRAGS = ['url(', 'URL(', 'u\\72l(', '/*', '*/', '<!--', '-->', '@charset ', '@charset', '@import', '@media',
         'U+', 'u+0-f', 'u+??', '\\41 ', '\\41', '\\000041', '\\0041\r\n', '\\6a\t', '\\\n', '\\\r\n', '\\"',
         "\\'", '\\g', '\\\\', '\\110000 ', '\\5c ', '\\a ', '\\20 ', '\r\n', '1.5', '.5em', '10%', '-1px',
         '+.3', '~=', '|=', '^=', '$=', '*=', '!important', '"a"', "'b'", 'and(', 'not(', '#f00', '\xfe\xff',
         '\xef\xbb\xbf', 'a:b', '--x', '-a', '\\30 ']

frag = st.one_of(st.sampled_from(CHARS), st.sampled_from(FRAGS), st.sampled_from(CHARS),
                 st.characters(codec='utf-8'))
tiling_strategy = st.fixed_dictionaries({
    'text': st.lists(frag, min_size=0, max_size=14).map(''.join),
    'fullsheet': st.booleans(),
})


def firstchar_cases(tier):
    step = 97 if tier == 'quick' else 7
    tails = ['', 'a', '(', ' x', '1', '\\41 ']
    special = [0x1680, 0x180e, 0x2028, 0x2029, 0x202f, 0x205f, 0x3000, 0xfeff, 0xfffe, 0xffff, 0x10000, 0x10ffff] + list(range(0x2000, 0x2010))
    for cp in list(range(0, 0x300)) + special + list(range(0x300, 0x110000, step)):
        if 0xD800 <= cp <= 0xDFFF:
            continue
        for i, tail in enumerate(tails):
            if cp >= 0x300 and i != cp % len(tails):
                continue
            yield {'text': chr(cp) + tail, 'fullsheet': bool(cp & 1)}
            yield {'text': 'a ' + chr(cp) + tail, 'fullsheet': not (cp & 1)}


def check_firstchar(case, ctx):
    """every code point as first character of a token: tiling + classification by the grammar"""
    check_tiling(case, ctx)
    text = case['text']
    tokens = toks(text, case['fullsheet'])
    idx = 2 if text.startswith('a ') else 0
    ch = text[idx:idx + 1] if not text.startswith('a ') else text[2]
    if not ch or idx >= len(tokens) or (idx == 2 and ch in WS1):
        return
    kind, val = tokens[idx][0], tokens[idx][1]
    cp = ord(ch)
    if ch in WS1:
        exp = 'S'
    elif cp >= 0x80:
        rest = text[(2 if text.startswith('a ') else 0) + 1:]
        if idx == 0 and text[:2] == '\xfe\xff' or idx == 0 and text[:3] == '\xef\xbb\xbf':
            return
        exp = 'FUNCTION' if rest.startswith('(') else 'IDENT'
    elif ch.isalpha() or ch == '_':
        rest = text[(2 if text.startswith('a ') else 0) + 1:]
        if ch in 'uU' and rest[:1] == '+':
            return
        exp = 'FUNCTION' if rest.startswith('(') else 'IDENT'
    elif ch.isdigit():
        exp = ('NUMBER', 'DIMENSION', 'PERCENTAGE')
    elif ch in '{}[]();:,>~=!$%&^|<?' or cp < 0x20 or cp == 0x7f:
        exp = ('CHAR', 'INCLUDES', 'DASHMATCH', 'PREFIXMATCH', 'SUFFIXMATCH', 'SUBSTRINGMATCH', 'CDO')
    else:
        return
    if isinstance(exp, str):
        exp = (exp,)
    if kind not in exp:
        raise Violation('class:first-character', f'U+{cp:04X} starts a {kind} token {val!r}, grammar says {exp} in {text!r}')
    if kind in ('IDENT', 'FUNCTION') and not val.startswith(ch):
        raise Violation('class:first-character', f'U+{cp:04X}: token {val!r} in {text!r}')


# ---------------------------------------------------------------------------
# grammar token sequences

NMSTART = 'abcdefghijklmnopqrstuvwxyzABCXYZ_\u00e9\u4e2d'
NMCHAR = NMSTART + '0123456789-'
TERMS = [' ', '\t', '\n', '\r\n', '\f', '\r']


@st.composite
def spelled_name(draw, chars, allow_escape=True, last_of_token=True):
    """returns (source, decoded) for a sequence of name characters; each may be a hex escape"""
    src = []
    for idx, ch in enumerate(chars):
        esc = allow_escape and draw(st.integers(0, 5)) == 0
        if not esc:
            # a raw hex digit/whitespace right after an unterminated escape cannot happen:
            # escapes below always carry a terminator unless 6 digits and followed by a char
            src.append(ch)
            continue
        digits = '%x' % ord(ch)
        pad = draw(st.integers(len(digits), 6))
        digits = digits.rjust(pad, '0')
        if draw(st.booleans()):
            digits = digits.upper()
        is_last = idx == len(chars) - 1
        if pad == 6 and not (is_last and last_of_token) and draw(st.booleans()):
            term = ''
        else:
            # a lone CR as last character could merge with a following LF
            term = draw(st.sampled_from(TERMS[:-1] if is_last else TERMS))
        src.append('\\' + digits + term)
    return ''.join(src), ''.join(chars)


@st.composite
def ident(draw, allow_escape=True, last_of_token=True, dash=True):
    first = draw(st.sampled_from(NMSTART))
    rest = draw(st.lists(st.sampled_from(NMCHAR), max_size=5))
    pre = draw(st.sampled_from(['', '', '', '-', '--'])) if dash else ''
    s, d = draw(spelled_name([first] + rest, allow_escape, last_of_token))
    return pre + s, pre + d


num = st.builds(
    lambda sign, a, b: sign + (a + ('.' + b if b else '') if a else '.' + (b or '0')),
    st.sampled_from(['', '', '+', '-']),
    st.text('0123456789', max_size=4),
    st.text('0123456789', max_size=3),
)

STR_PLAIN = 'abcXYZ 019/*(){};:,@#!-_=+~|<>.?&\t\u00e9\u20ac\U0001F600'


@st.composite
def string_tok(draw, continuation=True):
    q = draw(st.sampled_from('"\''))
    other = "'" if q == '"' else '"'
    parts_src, parts_val = [], []
    for _ in range(draw(st.integers(0, 6))):
        k = draw(st.integers(0, 9))
        if k <= 4:
            c = draw(st.sampled_from(STR_PLAIN))
            parts_src.append(c)
            parts_val.append(c)
        elif k == 5:
            parts_src.append(other)
            parts_val.append(other)
        elif k == 6:  # escaped quote: kept raw
            parts_src.append('\\' + q)
            parts_val.append('\\' + q)
        elif k == 7 and not continuation:
            pass
        elif k == 7:  # escaped newline: removed
            parts_src.append('\\' + draw(st.sampled_from(['\n', '\r\n', '\f', '\r'])))
        elif k == 8:  # hex escape of an ordinary character
            s, d = draw(spelled_name([draw(st.sampled_from(NMCHAR))], True, False))
            if not s.startswith('\\'):
                s = '\\%x ' % ord(d)
            follower = draw(st.sampled_from(['ws', 'ws', 'continuation', 'nonhex', 'quote']))
            if follower != 'ws' and (continuation or follower != 'continuation'):
                # an escape of fewer than six digits without the optional white space behind it
                hexd = '%x' % ord(d)
                s = '\\' + hexd.rjust(draw(st.integers(len(hexd), 5)), '0')
            if s[-1] not in WS1:
                if len(s) >= 7:
                    follower = 'ws'
                if follower == 'continuation' and continuation:
                    # the escape ends at the backslash; the continuation disappears, whatever comes next is ordinary text
                    s += '\\' + draw(st.sampled_from(['\n', '\r\n', '\f']))
                    nxt = draw(st.sampled_from('b1 Fg'))
                    s += nxt
                    d += nxt
                elif follower == 'nonhex':
                    nxt = draw(st.sampled_from('gXz-(!'))
                    s += nxt
                    d += nxt
                elif follower == 'quote':
                    s += other
                    d += other
                else:
                    s += ' '
            parts_src.append(s)
            parts_val.append(d)
        else:  # escaped backslash followed by a non-hex character
            parts_src.append('\\\\g')
            parts_val.append('\\\\g')
    return q + ''.join(parts_src) + q, q + ''.join(parts_val) + q


URL_PLAIN = 'abcxyz019/._-~:?#&=!*$%@+\u00e9'


@st.composite
def uri_tok(draw):
    head = draw(st.sampled_from(['url(', 'URL(', 'Url(', 'u\\72 l(', '\\75 rl(', 'ur\\00004c(']))
    w1 = draw(st.sampled_from(['', ' ', '\t', '\n', ' \r\n']))
    w2 = draw(st.sampled_from(['', ' ', '\n']))
    if draw(st.booleans()):
        s, v = draw(string_tok(continuation=True))  # (line continuations disappear as in any string)
        body_s, body_v = s, v
    else:
        body_s = body_v = draw(st.text(URL_PLAIN, max_size=8))
    src = head + w1 + body_s + w2 + ')'
    return src, decode(head) + w1 + body_v + w2 + ')'


RESERVED = {'@font-face': 'FONT_FACE_SYM', '@import': 'IMPORT_SYM', '@media': 'MEDIA_SYM',
            '@namespace': 'NAMESPACE_SYM', '@page': 'PAGE_SYM', '@variables': 'VARIABLES_SYM'}


@st.composite
def atkeyword(draw):
    if draw(st.booleans()):
        name = draw(st.sampled_from(sorted(RESERVED)))
        kind = RESERVED[name]
        chars = list(name[1:])
        chars = [c.upper() if draw(st.integers(0, 3)) == 0 else c for c in chars]
        s, d = draw(spelled_name(chars))
        return kind, '@' + s, ('@' + s, '@' + d)
    s, d = draw(ident())
    import cssutils.helper as H

    if H.normalize(d) in [k[1:] for k in RESERVED] or H.normalize(d) == 'charset':
        s = d = 'x' + d
    return 'ATKEYWORD', '@' + s, ('@' + s, '@' + d)


CHAR_SET = list(',:;{}>[]()+~*.=!/|$^&-<@#%?\x00\x7f')


@st.composite
def token(draw):
    """returns (kind, source, accepted values tuple)"""
    k = draw(st.sampled_from(['IDENT', 'IDENT', 'FUNCTION', 'ATKEYWORD', 'HASH', 'STRING', 'URI', 'NUMBER',
                              'PERCENTAGE', 'DIMENSION', 'UNICODE-RANGE', 'MATCH', 'CDO', 'CDC', 'S',
                              'COMMENT', 'CHAR', 'CHAR']))
    if k == 'IDENT':
        s, d = draw(ident())
        return 'IDENT', s, (d,)
    if k == 'FUNCTION':
        s, d = draw(ident(last_of_token=False))
        if decode(s).lower().lstrip('-') in ('url', 'and') or decode(s).lower() in ('url', 'and'):
            s, d = 'f' + s, 'f' + d
        return 'FUNCTION', s + '(', (d + '(',)
    if k == 'ATKEYWORD':
        return draw(atkeyword())
    if k == 'HASH':
        chars = draw(st.lists(st.sampled_from(NMCHAR), min_size=1, max_size=6))
        s, d = draw(spelled_name(chars))
        return 'HASH', '#' + s, ('#' + d,)
    if k == 'STRING':
        s, v = draw(string_tok())
        return 'STRING', s, (v,)
    if k == 'URI':
        s, v = draw(uri_tok())
        return 'URI', s, (v,)
    if k == 'NUMBER':
        n = draw(num)
        return 'NUMBER', n, (n,)
    if k == 'PERCENTAGE':
        n = draw(num)
        return 'PERCENTAGE', n + '%', (n + '%',)
    if k == 'DIMENSION':
        n = draw(num)
        s, d = draw(ident(dash=False))
        return 'DIMENSION', n + s, (n + d,)
    if k == 'UNICODE-RANGE':
        a = draw(st.text('0123456789abcdefABCDEF?', min_size=1, max_size=6))
        b = draw(st.one_of(st.just(''), st.text('0123456789abcdefABCDEF', min_size=1, max_size=6).map(lambda x: '-' + x)))
        s = draw(st.sampled_from('uU')) + '+' + a + b
        return 'UNICODE-RANGE', s, (s,)
    if k == 'MATCH':
        s = draw(st.sampled_from(['~=', '|=', '^=', '$=', '*=']))
        return {'~=': 'INCLUDES', '|=': 'DASHMATCH', '^=': 'PREFIXMATCH', '$=': 'SUFFIXMATCH',
                '*=': 'SUBSTRINGMATCH'}[s], s, (s,)
    if k == 'CDO':
        return 'CDO', '<!--', ('<!--',)
    if k == 'CDC':
        return 'CDC', '-->', ('-->',)
    if k == 'S':
        s = draw(st.lists(st.sampled_from(list(' \t\n\r\f')), min_size=1, max_size=3)).__iter__()
        s = ''.join(s)
        return 'S', s, (s,)
    if k == 'COMMENT':
        body = draw(st.text('abc *\n/\u00e9"\'\\{};@', max_size=8)).replace('*/', '* /')
        if body.endswith('*') and False:
            pass
        s = '/*' + body + '*/'
        return 'COMMENT', s, (s, decode(s))
    c = draw(st.sampled_from(CHAR_SET))
    return 'CHAR', c, (c,)


SAFE_GLUE = set(',:;{}[]')


@st.composite
def token_seq(draw):
    toks_ = draw(st.lists(token(), min_size=1, max_size=10))
    out = []  # (kind, src, accepted)
    for t in toks_:
        if out:
            a = out[-1]
            if a[0] == 'S' and t[0] == 'S':
                continue
            if a[0] != 'S' and t[0] != 'S':
                glue_ok = (a[1] in SAFE_GLUE or t[1] in SAFE_GLUE)
                sep = draw(st.sampled_from(['', ' ', ' ', '\n', '\t', '/**/', '/* c */']))
                if sep == '' and not glue_ok:
                    sep = ' '
                if sep.startswith('/*'):
                    # '/' or '*' neighbours would merge with the comment delimiters
                    if a[1].endswith(('/', '*')) or t[1].startswith(('/', '*')):
                        sep = ' '
                if sep:
                    out.append(('COMMENT' if sep.startswith('/*') else 'S', sep, (sep,)))
        out.append(t)
    return {'tokens': [[k, s, list(v)] for k, s, v in out], 'fullsheet': draw(st.booleans())}


def check_seq(case, ctx):
    exp = case['tokens']
    text = ''.join(t[1] for t in exp)
    got = toks(text, case['fullsheet'])
    if case['fullsheet']:
        if not got or got[-1][0] != 'EOF':
            raise Violation('eof:missing', repr(got[-2:]))
        got = got[:-1]
    gk = [(g[0], g[1]) for g in got]
    if len(gk) != len(exp) or any(g[0] != e[0] or g[1] not in e[2] for g, e in zip(gk, exp)):
        i = next((i for i, (g, e) in enumerate(zip(gk, exp)) if g[0] != e[0] or g[1] not in e[2]), min(len(gk), len(exp)))
        e = exp[i] if i < len(exp) else None
        g = gk[i] if i < len(gk) else None
        kind = 'count' if e is None or g is None else ('kind:' + e[0] if g[0] != e[0] else 'value:' + e[0])
        raise Violation('seq:' + kind, f'at {i}: expected {e!r} got {g!r}; text {text!r}')
    # positions too
    check_tiling({'text': text, 'fullsheet': case['fullsheet']}, _NullCtx())
    kinds = {e[0] for e in exp}
    nt = len(exp) >= 3 and len(kinds) >= 2 and ('\\' in text or any(ord(c) > 127 for c in text)
                                                or any('\n' in e[1] and e[0] != 'S' for e in exp))
    for k in kinds:
        ctx.event('kind:' + k)
    ctx.case(text, nt, {'text': text, 'kinds': [e[0] for e in exp]})


class _NullCtx:
    def event(self, *a, **k):
        pass

    def case(self, *a, **k):
        pass


# ---------------------------------------------------------------------------
# error positions

SHEET_LINES = ['a { color: red }', '@media print { b { margin: 0 } }', '/* c */', 'p > q,\n r { top: 1px;\n left: 2px }',
               'h1 { font: 12px/1.5 "A B", serif }', '\tdiv.c#i[x="y"] { }', 'a{}\r\nb{}']
# (text, value that must be reported) — planted where a statement may start
BAD = [('$$bad { x: 1 }', None), ('a { color: red; !! ; left: 0 }', None), ('a,, b { top: 0 }', None),
       ('a { 1px: 2 }', None), ('@page :zzzz ! { }', None), ('a { top: 1px 1px ] }', None),
       ('a:::b { top: 0 }', None), ('a { : x }', None), ('} ', None), ('@namespace 1 2;', None)]


errpos_strategy = st.fixed_dictionaries({
    'before': st.lists(st.sampled_from(SHEET_LINES), max_size=4),
    'sep': st.sampled_from(['\n', ' ', '\n\n', '\r\n', '\n\t', '\f']),
    'bad': st.sampled_from([b[0] for b in BAD]),
    'after': st.lists(st.sampled_from(SHEET_LINES[:4]), max_size=2),
    'indent': st.sampled_from(['', ' ', '  ', '\t']),
})

_SUFFIX = re.compile(r'\[(\d+):(\d+): (.*)\]$', re.S)


def check_errpos(case, ctx):
    pre = case['sep'].join(case['before'])
    if pre:
        pre += case['sep']
    pre += case['indent']
    text = pre + case['bad'] + case['sep'] + case['sep'].join(case['after'])
    # the prefix alone must be accepted by the raising parser
    p = cssutils.CSSParser(raiseExceptions=True)
    saved = cssutils.log.raiseExceptions
    try:
        try:
            with lib('parse-prefix', expect=(xml.dom.DOMException,)):
                p.parseString(pre)
        except xml.dom.DOMException as e:
            raise Violation('errpos:wellformed-prefix-rejected', f'{pre!r}: {e}')
        try:
            with lib('parse', expect=(xml.dom.DOMException,)):
                p.parseString(text)
        except xml.dom.DOMException as e:
            exc = e
        else:
            ctx.event('not-rejected')
            ctx.case(text, False)
            return
    finally:
        cssutils.log.raiseExceptions = saved
    m = _SUFFIX.search(str(exc))
    if not m:
        ctx.event('no-position-suffix')
        ctx.case(text, False)
        return
    ln, col, val = int(m.group(1)), int(m.group(2)), m.group(3)
    starts = line_starts(text)
    if not (1 <= ln <= len(starts)):
        raise Violation('errpos:line-out-of-range', f'{exc} for {text!r}')
    off = starts[ln - 1] + col - 1
    # the complained-about token lies in the bad statement, and the value starts at that offset
    tokens = toks(text, True)
    tok_at = [t for t in tokens if (t[2], t[3]) == (ln, col) and t[0] != 'EOF']
    if val == '' and off == len(text):
        pass  # EOF token
    elif not tok_at or not (text.startswith(val, off) or tok_at[0][1] == val):
        raise Violation('errpos:value-not-at-position', f'{exc} -> offset {off} in {text!r}')
    if off < len(pre):
        raise Violation('errpos:inside-wellformed-prefix', f'{exc} -> offset {off}, bad starts at {len(pre)} in {text!r}')
    if getattr(exc, 'line', None) is not None and (exc.line, exc.col) != (ln, col):
        raise Violation('errpos:attrs-differ-from-message', f'{exc.line}:{exc.col} vs {exc}')
    # a report keeps its own position whatever is reported later
    mine = (getattr(exc, 'line', None), getattr(exc, 'col', None))
    for other in ('a $b {}', '\n\n\n   ,{}', 'a{x:y !}'):
        try:
            cssutils.CSSParser(raiseExceptions=True).parseString(other)
        except xml.dom.DOMException:
            pass
    cssutils.log.raiseExceptions = saved
    if (getattr(exc, 'line', None), getattr(exc, 'col', None)) != mine:
        raise Violation('errpos:position-of-earlier-report-changed', f'{exc}: was {mine}, is {(exc.line, exc.col)} after later reports')
    ctx.event('rejected-with-position')
    ctx.case(text, ln > 1 or col > 1, {'text': text, 'error': str(exc)[-60:]})


# ---------------------------------------------------------------------------
# completion at the end of input (full-sheet mode)

URL_SPELLINGS = ['url(', 'URL(', 'Url(', 'ur\\6C(', 'ur\\4C(', '\\75\\72\\6C (', 'u\\72l(', 'u\\72 l(', '\\75 rl(', '\\000075rl(', 'ur\\6c(', 'ur\\6C(', 'U\\52 L(',
                 'ur\\l(', '\\55\tRL(', 'u\\000072\r\nl(']
OPEN_CONTENT = ['', 'a', 'x.png', 'a/b.css?q=1', '\\41 b', 'é', '#f', 'a-b_c', '%20']
PREFIXES = ['', 'a{background:', 'a { b : c } ', '@import ', '/* c */', 'x\n{y:\n', '"s" ', 'a{b:url(x)}\n']
complete_strategy = st.fixed_dictionaries({
    'prefix': st.sampled_from(PREFIXES),
    'kind': st.sampled_from(['url', 'url', 'url-dq', 'url-sq', 'url-dq-closed', 'string-dq', 'string-sq', 'comment']),
    'spelling': st.sampled_from(URL_SPELLINGS),
    'ws': st.sampled_from(['', '', ' ', '\n', ' \t']),
    'content': st.sampled_from(OPEN_CONTENT),
    'trail': st.sampled_from(['', '', ' ', '\n']),
})


def check_complete(case, ctx):
    k, c = case['kind'], case['content']
    if k == 'url':
        open_, closer = case['spelling'] + case['ws'] + c + (case['trail'] if c else ''), ')'
        want = 'URI'
    elif k in ('url-dq', 'url-sq'):
        q = '"' if k == 'url-dq' else "'"
        open_, closer = case['spelling'] + case['ws'] + q + c, q + ')'
        want = 'URI'
    elif k == 'url-dq-closed':
        open_, closer = case['spelling'] + case['ws'] + '"' + c + '"' + case['trail'], ')'
        want = 'URI'
    elif k in ('string-dq', 'string-sq'):
        q = '"' if k == 'string-dq' else "'"
        open_, closer = q + c + case['trail'].replace('\n', ' '), q  # a line break ends a string (INVALID), nothing to complete
        want = 'STRING'
    else:
        open_, closer = '/*' + c + case['trail'], '*/'
        want = 'COMMENT'
    text = case['prefix'] + open_
    got = toks(text, True)
    ref = toks(text + closer, True)
    if [t[0] for t in ref][-2:] != [want, 'EOF']:
        return  # the explicitly terminated text does not end in that construct (spelling not a url( after all)
    if not got or got[-1][0] != 'EOF' or sum(1 for t in got if t[0] == 'EOF') != 1:
        raise Violation('complete:end-marker', f'{text!r}: {[t[0] for t in got]}')
    if [t[0] for t in got] != [t[0] for t in ref]:
        raise Violation('complete:not-completed:' + want, f'{text!r} -> {[(t[0], t[1]) for t in got][-4:]}, terminated text gives {[(t[0], t[1]) for t in ref][-3:]}')
    if [t[:2] for t in got[:-2]] != [t[:2] for t in ref[:-2]] or [t[2:] for t in got[:-1]] != [t[2:] for t in ref[:-1]]:
        raise Violation('complete:earlier-tokens-differ', f'{text!r}: {got!r} vs {ref!r}')
    # with comments switched off the tokens are those of the text without its comments
    got_nc, ref_nc = toks(text, True, doComments=False), toks(text + closer, True, doComments=False)
    if [t[:2] for t in got_nc] != [t[:2] for t in ref_nc]:
        raise Violation('complete:comments-off-differs', f'{text!r} with comments off -> {[(t[0], t[1]) for t in got_nc][-4:]}, terminated text gives {[(t[0], t[1]) for t in ref_nc][-3:]}')
    ctx.event('complete:' + k)
    ctx.case(text, '\\' in open_ or bool(case['ws']) or '\n' in text, {'text': text, 'last': list(got[-2][:2])})


# ---------------------------------------------------------------------------
# long runs of one character class after every opener: the tokenizer must stay (about) linear

OPENERS = ['', '/*', '"', "'", 'url(', 'url("', "url('", '\\', '@', '#', '.', '-', 'u+', '<!-', '1', '1e', 'a', '\\41', '!', 'U+1', '*/', '/']
RUNCHARS = ['*', '/', 'a', '1', '\\', ' ', '\n', '"', "'", '-', '.', '?', 'f', '\\a ', '\\\n', 'é', '(', ')', '+', '%', '\r',
            '\\41', '\\AB', '\\a\t', '\\000041', '\\g', 'u', '\\6C', '@', '#', 'e', '0.', 'U+', '|', '!', '<', '-->']
TAILS = ['', ' x', '/', '*/', '"', ')', '\n']


def runs_cases(tier):
    sizes = [40, 400, 4000] if tier == 'quick' else [40, 100, 400, 2000, 20000]
    for oi, o in enumerate(OPENERS):
        for ci, c in enumerate(RUNCHARS):
            for ti, t in enumerate(TAILS):
                if tier == 'quick' and (oi + ci + ti) % 3:
                    continue
                for n in sizes:
                    yield {'opener': o, 'char': c, 'n': n, 'tail': t, 'fullsheet': bool((oi + ci + n) & 1)}


def check_runs(case, ctx):
    text = case['opener'] + case['char'] * case['n'] + case['tail']
    # same oracle as tiling; the hang watchdog of the runner bounds the time of one case
    check_tiling({'text': text, 'fullsheet': case['fullsheet']}, _NullCtx())
    ctx.event('runs:n=%d' % case['n'])
    ctx.case([case['opener'], case['char'], case['n'], case['tail'], case['fullsheet']], case['n'] >= 400, None)


# ---------------------------------------------------------------------------
# every hex spelling of the letters of url( / the reserved at-keywords is the same token


def spelled_keyword_cases(tier):
    words = [('url(', 'a)', 'URI'), ('@import', ' "x";', 'IMPORT_SYM'), ('@media', ' tv{}', 'MEDIA_SYM'), ('@page', '{}', 'PAGE_SYM'),
             ('@namespace', ' "u";', 'NAMESPACE_SYM'), ('@font-face', '{}', 'FONT_FACE_SYM')]  # '@charset "' is exact by CSS 2.1: not here
    for word, tail, kind in words:
        for i, ch in enumerate(word):
            if not ch.isalpha():
                continue
            for code in {ord(ch), ord(ch.upper())}:
                for digits in ('%x' % code, '%X' % code, '%06x' % code, '%06X' % code, '00%X' % code):
                    for term in ('', ' ', '\t', '\n', '\r\n'):
                        nxt = (word[i + 1:] + tail)[:1]
                        if term == '' and (nxt in ' \t\r\n\f' or (len(digits) < 6 and nxt in HEX)):
                            continue  # the next character would be read as the terminator / as part of the escape
                        yield {'text': word[:i] + '\\' + digits + term + word[i + 1:] + tail, 'kind': kind, 'word': word}


_spelled0 = spelled_keyword_cases


def spelled_keyword_cases(tier):  # noqa: F811
    yield from _spelled0(tier)
    for word, tail, kind in [('@import', ' "x";', 'IMPORT_SYM'), ('@media', ' tv{}', 'MEDIA_SYM'), ('@page', '{}', 'PAGE_SYM'), ('@namespace', ' "u";', 'NAMESPACE_SYM'),
                             ('@font-face', '{}', 'FONT_FACE_SYM')]:
        for esc in ('\\5c', '\\5C ', '\\00005c', '\\\\'):
            for i in (1, 3):
                yield {'text': word[:i] + esc + word[i:] + tail, 'kind': kind, 'word': word, 'not': True}
    for sp in ('an\\64', 'an\\64 ', '\\61nd', 'AN\\44', '\\000061 nd', 'a\\6e d', 'a\\6E\td', 'And', 'AND'):
        yield {'text': sp + '(min-width:1px)', 'kind': 'IDENT', 'word': 'and(', 'and': True}


def check_spelled_keyword(case, ctx):
    tokens = toks(case['text'], False)
    ctx.case(case['text'], True, None)
    if case.get('not'):
        # an escaped backslash is a character of the name: this is another name than the keyword
        if tokens and tokens[0][0] == case['kind']:
            raise Violation('class:other-name-read-as-keyword', f'{case["text"]!r} starts with {tokens[:2]!r}: the name holds a backslash, it is not {case["word"]}')
        return
    if case.get('and'):
        if [t[0] for t in tokens[:2]] != ['IDENT', 'CHAR']:
            raise Violation('class:escaped-spelling-of-keyword', f'{case["text"]!r} starts with {tokens[:2]!r}; "and(" gives IDENT, CHAR')
        return
    if not tokens or tokens[0][0] != case['kind']:
        raise Violation('class:escaped-spelling-of-keyword', f'{case["text"]!r} starts with {tokens[:2]!r}, expected one {case["kind"]} token')


SUBS = [
    Sub('keywords', check_spelled_keyword, enumerate=spelled_keyword_cases, shards_quick=2, shards_thorough=2),
    Sub('runs', check_runs, enumerate=runs_cases, shards_quick=8, shards_thorough=16, budget_quick=120, budget_thorough=3000),
    Sub('complete', check_complete, strategy=complete_strategy, quick=4000, thorough=200000, shards_quick=4),
    Sub('tiling', check_tiling, strategy=tiling_strategy, quick=40000, thorough=2400000, shards_quick=8),
    Sub('firstchar', check_firstchar, enumerate=firstchar_cases, shards_quick=4),
    Sub('seq', check_seq, strategy=token_seq(), quick=6000, thorough=400000, shards_quick=8),
    Sub('errpos', check_errpos, strategy=errpos_strategy, quick=1500, thorough=40000, shards_quick=4),
]
