"""C15 — namespace declarations and namespaced selectors stay consistent."""

import xml.dom

from hypothesis import strategies as st

import cssutils
from cssutils import css
from vlib.runner import Sub, Violation, frame_sig

PROPERTY = 'C15'
RULE = (
    'Histories of 1..10 namespace operations on a sheet holding type, universal and attribute selectors with explicit '
    'prefix, *|, | and default namespace: namespaces[p] = uri (new prefix, re-binding a prefix to a URI that has / has no '
    'prefix, the same pair), del namespaces[p], insert / delete @namespace rules at any index, namespaceRule.prefix =, '
    'adding namespaced style rules as text and as objects with declared and undeclared prefixes, moving a rule to a '
    'second sheet that binds the same URIs to other prefixes, detaching and re-attaching, in raise and log mode. After '
    'every step: dict(sheet.namespaces) == mapping derived from the @namespace rules (last declaration of a URI wins, no '
    'prefix twice); every URI used by a selector is declared; deleting a used namespace is rejected and changes nothing; '
    'the (namespace URI, local name) pairs of every living selector are unchanged; the serialisation holds only '
    'well-formed @namespace rules and reparses to the same pairs; an undeclared prefix is rejected with NamespaceErr. '
    'resolution: sheets rendered from a model - @namespace declarations over the prefixes a / A / b / Svg / e-acute / default (prefixes '
    'are case-sensitive names; optionally spelled with a hex escape), then rules built from 11 selector templates (type, attribute, '
    'universal, :not() argument, any-namespace, no-namespace, default-namespace) at top level or in @media: the (item type, URI, '
    'local name) sequence of every surviving selector and the reported mapping must equal what the model resolves; a rule using an '
    'undeclared prefix must be gone. '
    'Non-trivial: >= 2 namespace operations of different kinds with a namespaced selector alive; distinct by history.'
    ' Ops also: a rule given as text to an @media rule of the sheet (read with the namespaces of the sheet), namespaceRule.cssText = with another prefix / URI in both error modes, re-binding to the default prefix while a default exists; scenarios for list deletion, later declarations of a prefix and hex-escaped prefixes.'
)
ASSUMPTIONS = [
    'selector meaning is read from Selector.seq ((URI, local name) tuples), as named in the property anchors',
    'changing which URI is the default namespace is not generated (it legitimately re-resolves later-parsed unprefixed type selectors)',
    'making a prefixed namespace the default one (prefix = "") while attribute selectors use it is excluded (listed finding F15-1)',
]

P, Q, D, N = 'http://p.example', 'http://q.example', 'http://d.example', 'http://n.example'
INIT = [
    '@namespace p "%s"; p|a, b, |c, *|d, [p|x], [y] { top: 0 }' % P,
    '@namespace p "%s"; @namespace "%s"; p|a > b, |c, *|*, p|* { top: 0 } @media print { [p|x=v], e { left: 0 } }' % (P, D),
    '@import "i.css"; /* c */ @namespace p "%s"; @namespace q "%s"; p|a, q|b { top: 0 } q|c:not(p|d) { left: 0 }' % (P, Q),
    '@namespace q "%s"; x { top: 0 }' % Q,
    'a { top: 0 }',
]
SHEET_B = '@namespace pp "%s"; @namespace qq "%s"; z { top: 0 }' % (P, Q)
PREFIXES = ['p', 'q', 'n', 'x1']
URIS = [P, Q, N]
SELECTORS = ['p|a', 'q|b', 'n|c', 'zz|d', '*|e', '|f', 'g', '[p|h]', '[q|i=v]', 'p|*', ':not(q|j)', 'p|a q|b > n|c']

op = st.one_of(
    st.tuples(st.just('set'), st.sampled_from(PREFIXES), st.sampled_from(URIS)),
    st.tuples(st.just('set'), st.sampled_from(PREFIXES), st.sampled_from(URIS)),
    st.tuples(st.just('del'), st.sampled_from(PREFIXES + ['zz'])),
    st.tuples(st.just('insertNs'), st.sampled_from(PREFIXES), st.sampled_from(URIS), st.integers(0, 6)),
    st.tuples(st.just('deleteNs'), st.integers(0, 3)),
    st.tuples(st.just('prefix'), st.integers(0, 3), st.sampled_from(PREFIXES + ['', ''])),
    st.tuples(st.just('addRule'), st.sampled_from(SELECTORS), st.booleans()),
    st.tuples(st.just('mediaInsert'), st.sampled_from(SELECTORS), st.integers(0, 3)),
    st.tuples(st.just('nsRuleText'), st.integers(0, 3), st.sampled_from(PREFIXES), st.sampled_from(URIS)),
    st.tuples(st.just('selectorText'), st.integers(0, 4), st.sampled_from(SELECTORS)),
    st.tuples(st.just('move'), st.integers(0, 4)),
    st.tuples(st.just('detach-reattach'), st.integers(0, 4)),
    st.tuples(st.just('detach-del'), st.integers(0, 4)),
    st.tuples(st.just('appendSelector'), st.integers(0, 4), st.sampled_from(SELECTORS)),
)
strategy = st.fixed_dictionaries({
    'init': st.integers(0, len(INIT) - 1), 'raising': st.booleans(), 'ops': st.lists(op, min_size=1, max_size=10),
}).map(lambda d: {**d, 'ops': [list(o) for o in d['ops']]})


def walk(rules):
    for r in rules:
        yield r
        if r.type == r.MEDIA_RULE:
            yield from walk(r.cssRules)


def style_rules(sheet):
    return [r for r in walk(sheet.cssRules) if r.type == r.STYLE_RULE]


def pairs_of(rule):
    out = []
    for sel in rule.selectorList:
        ps = []
        for item in sel.seq:
            if isinstance(item.value, tuple):
                ps.append((item.type, item.value[0], item.value[1]))
        out.append(tuple(ps))
    return tuple(out)


def used_uris(rule):
    return {u for sel in pairs_of(rule) for (_, u, _) in sel if u not in (None, '') and u is not cssutils._ANYNS and u != '*'}


def ns_rules(sheet):
    return [r for r in sheet.cssRules if r.type == r.NAMESPACE_RULE]


def expected_mapping(sheet, step):
    last = {}
    for r in ns_rules(sheet):
        last[r.namespaceURI] = r.prefix
    m = {}
    for uri, prefix in last.items():
        if prefix in m:
            raise Violation('ns:one-prefix-bound-to-two-uris', f'after {step}: {[(r.prefix, r.namespaceURI) for r in ns_rules(sheet)]}')
        m[prefix] = uri
    return m


def fetcher(url):
    return (None, '')


def check_sheet(sheet, known_pairs, step, label):
    try:
        mapping = dict(sheet.namespaces.items())
    except Exception as e:  # noqa: BLE001
        raise Violation('crash:namespaces-mapping:' + frame_sig(e), f'after {step}: {e!r}')
    exp = expected_mapping(sheet, step)
    if mapping != exp:
        raise Violation('ns:mapping-differs-from-rules', f'after {step} ({label}): mapping {mapping}, rules {[(r.prefix, r.namespaceURI) for r in ns_rules(sheet)]}')
    used = set()
    for r in style_rules(sheet):
        used |= used_uris(r)
    declared = set(mapping.values())
    undeclared = {u for u in used if u not in declared and u not in ('', None) and u is not cssutils._ANYNS}
    if undeclared:
        raise Violation('ns:used-uri-not-declared', f'after {step} ({label}): {sorted(map(str, undeclared))} used, declared {sorted(declared)}; sheet {sheet.cssText!r}')
    for r in style_rules(sheet):
        if id(r) in known_pairs and pairs_of(r) != known_pairs[id(r)][1]:
            raise Violation('ns:selector-meaning-changed', f'after {step} ({label}): {r.selectorText!r}: {pairs_of(r)} was {known_pairs[id(r)][1]}')
    # serialisation: well-formed @namespace rules, same pairs after reparse
    saved = {k: getattr(cssutils.ser.prefs, k) for k in ('keepEmptyRules',)}
    mode = cssutils.log.raiseExceptions
    cssutils.ser.prefs.keepEmptyRules = True
    try:
        text = sheet.cssText
        cssutils.log.raiseExceptions = False
        re_ = cssutils.CSSParser(fetcher=fetcher).parseString(text)
        cssutils.log.raiseExceptions = mode
        for r in ns_rules(sheet):
            t = r.cssText
            if not t or t.count('"') != 2 or not t.endswith(';'):
                raise Violation('ns:malformed-namespace-rule-serialised', f'after {step} ({label}): {t!r}')
        a = [pairs_of(r) for r in style_rules(sheet)]
        b = [pairs_of(r) for r in style_rules(re_)]
        # unprefixed type selectors resolve to None (no default) or the default namespace: identical on both sides
        if a != b:
            raise Violation('ns:reparse-resolves-differently', f'after {step} ({label}): {text!r}: {a} vs {b}')
        if dict(re_.namespaces.items()) != mapping:
            raise Violation('ns:reparse-mapping-differs', f'after {step} ({label}): {text!r}: {dict(re_.namespaces.items())} vs {mapping}')
    finally:
        cssutils.log.raiseExceptions = mode
        for k, v in saved.items():
            setattr(cssutils.ser.prefs, k, v)


def snapshot(sheet):
    return (sheet.cssText, [(r.prefix, r.namespaceURI) for r in ns_rules(sheet)], [pairs_of(r) for r in style_rules(sheet)])


def check(case, ctx):
    saved = cssutils.log.raiseExceptions
    try:
        cssutils.log.raiseExceptions = False
        A = cssutils.CSSParser(fetcher=fetcher).parseString(INIT[case['init']])
        B = cssutils.CSSParser(fetcher=fetcher).parseString(SHEET_B)
        cssutils.log.raiseExceptions = case['raising']
        known = {}
        for sh in (A, B):
            for r in style_rules(sh):
                known[id(r)] = (r, pairs_of(r))
        check_sheet(A, known, 'init', 'A')
        kinds = set()
        for k, o in enumerate(case['ops']):
            step = f'op {k} {o!r} (raising={case["raising"]}, init={case["init"]})'
            kind = o[0]
            before = snapshot(A)
            rejected = None
            try:
                if kind == 'set':
                    # excluded: turning a prefixed namespace into the default one / changing the default URI
                    A.namespaces[o[1]] = o[2]
                elif kind == 'del':
                    uri = dict(A.namespaces.items()).get(o[1])
                    in_use = uri is not None and any(uri in used_uris(r) for r in style_rules(A)) and \
                        [r.namespaceURI for r in ns_rules(A)].count(uri) == 1
                    try:
                        del A.namespaces[o[1]]
                        if in_use and case['raising']:
                            raise Violation('ns:used-namespace-deleted', f'{step}: {before[0]!r} -> {A.cssText!r}')
                    except xml.dom.DOMException as e:
                        rejected = e
                    if in_use and snapshot(A) != before:
                        raise Violation('ns:used-namespace-deleted', f'{step}: {before[0]!r} -> {A.cssText!r}')
                elif kind == 'insertNs':
                    A.insertRule('@namespace %s "%s";' % (o[1], o[2]), min(o[3], A.cssRules.length))
                elif kind == 'deleteNs':
                    rules = ns_rules(A)
                    if rules:
                        A.deleteRule(rules[o[1] % len(rules)])
                elif kind == 'prefix':
                    rules = ns_rules(A)
                    if rules:
                        target = rules[o[1] % len(rules)]
                        if target.prefix == '':
                            ctx.event('excluded:prefix-of-default-namespace')
                            continue
                        if o[2] == '':
                            # re-binding to the default prefix changes which URI is the default (excluded, see ASSUMPTIONS) - unless
                            # another rule declares a default namespace already: then the prefix is taken and the edit must be refused
                            if not any(r is not target and r.prefix == '' for r in rules):
                                ctx.event('excluded:new-default-namespace')
                                continue
                            ctx.event('prefix:default-while-a-default-exists')
                            before_text = A.cssText
                            try:
                                target.prefix = ''
                            except xml.dom.DOMException:
                                pass
                            if A.cssText != before_text:
                                raise Violation('ns:second-default-namespace-accepted', f'{step}: {before_text!r} -> {A.cssText!r}')
                            continue
                        target.prefix = o[2]
                elif kind == 'addRule':
                    sel = o[1]
                    m = dict(A.namespaces.items())
                    prefixes = {p for p in ('p', 'q', 'n', 'zz') if (p + '|') in sel}
                    undeclared = [p for p in prefixes if p not in m]
                    try:
                        if o[2]:
                            A.add(css.CSSStyleRule(selectorText=(sel, m), style='top: 0'))
                        else:
                            A.add(sel + ' { top: 0 }')
                    except xml.dom.DOMException as e:
                        rejected = e
                        if not undeclared and isinstance(e, xml.dom.NamespaceErr):
                            raise Violation('ns:declared-prefix-rejected', f'{step}: {e}; namespaces {m}')
                    else:
                        if undeclared and case['raising']:
                            raise Violation('ns:undeclared-prefix-accepted', f'{step}: namespaces {m}; sheet {A.cssText!r}')
                    if undeclared and any(sel.split()[0] in r.selectorText for r in style_rules(A) if id(r) not in known):
                        raise Violation('ns:undeclared-prefix-accepted', f'{step}: namespaces {m}; sheet {A.cssText!r}')
                elif kind == 'mediaInsert':
                    # a rule given as text to an @media rule of the sheet is read with the namespaces of the sheet
                    medias = [r for r in A.cssRules if r.type == r.MEDIA_RULE]
                    if not medias:
                        medias = [A.add('@media print { mm { top: 0 } }') and None or [r for r in A.cssRules if r.type == r.MEDIA_RULE][-1]]
                    mr = medias[0]
                    sel = o[1]
                    m = dict(A.namespaces.items())
                    prefixes = {p for p in ('p', 'q', 'n', 'zz') if (p + '|') in sel}
                    undeclared = [p for p in prefixes if p not in m]
                    n_before = mr.cssRules.length
                    try:
                        mr.insertRule(sel + ' { left: 1px }', min(o[2], mr.cssRules.length))
                    except xml.dom.DOMException as e:
                        rejected = e
                        if not undeclared:
                            raise Violation('ns:declared-prefix-rejected:in-media', f'{step}: {e}; namespaces {m}')
                    else:
                        if undeclared and mr.cssRules.length > n_before:
                            raise Violation('ns:undeclared-prefix-accepted:in-media', f'{step}: namespaces {m}; sheet {A.cssText!r}')
                        if not undeclared and mr.cssRules.length > n_before:
                            ref = css.CSSStyleRule(selectorText=(sel, m), style='left: 1px')
                            new = [r for r in mr.cssRules if r.type == r.STYLE_RULE and id(r) not in known]
                            if new and pairs_of(new[-1]) != pairs_of(ref) and pairs_of(new[0]) != pairs_of(ref):
                                raise Violation('ns:text-rule-in-media-resolved-without-sheet-namespaces',
                                                f'{step}: {sel!r} gives {pairs_of(new[-1])}, with the namespaces of the sheet {pairs_of(ref)}')
                elif kind == 'nsRuleText':
                    rules = ns_rules(A)
                    if rules:
                        target = rules[o[1] % len(rules)]
                        if target.prefix == '' or o[2] == '':
                            continue
                        text = '@namespace %s "%s";' % (o[2], o[3])
                        try:
                            target.cssText = text
                        except xml.dom.DOMException as e:
                            rejected = e
                        if (target.prefix, target.namespaceURI) != (o[2], o[3]) and snapshot(A) != before:
                            raise Violation('ns:refused-rule-text-changes-the-sheet', f'{step}: {before[0]!r} -> {A.cssText!r} (rule says {target.prefix!r} -> {target.namespaceURI!r})')
                elif kind == 'selectorText':
                    rs = style_rules(A)
                    if rs:
                        r = rs[o[1] % len(rs)]
                        known.pop(id(r), None)
                        try:
                            r.selectorText = o[2]
                        except xml.dom.DOMException as e:
                            rejected = e
                elif kind == 'move':
                    rs = [r for r in A.cssRules if r.type == r.STYLE_RULE]
                    if rs:
                        r = rs[o[1] % len(rs)]
                        if not used_uris(r) <= set(dict(B.namespaces.items()).values()) or \
                                (dict(A.namespaces.items()).get('') and any(t == 'type-selector' and u == dict(A.namespaces.items()).get('')
                                                                           for sel in pairs_of(r) for (t, u, _) in sel)):
                            ctx.event('excluded:move-needs-undeclared-namespace(F15-2)')
                            continue
                        A.deleteRule(r)
                        try:
                            B.add(r)
                        except xml.dom.DOMException as e:
                            rejected = e
                            known.pop(id(r), None)
                elif kind == 'appendSelector':
                    rs = style_rules(A)
                    if rs:
                        r = rs[o[1] % len(rs)]
                        known.pop(id(r), None)
                        try:
                            r.selectorList.appendSelector(o[2])
                        except xml.dom.DOMException as e:
                            rejected = e
                elif kind == 'detach-del':
                    rs = [r for r in A.cssRules if r.type == r.STYLE_RULE]
                    if rs:
                        r = rs[o[1] % len(rs)]
                        A.deleteRule(r)
                        text0, pairs0 = r.selectorText, pairs_of(r)
                        removed = []
                        for pfx, uri in list(A.namespaces.items()):
                            if pfx and uri in used_uris(r):
                                try:
                                    del A.namespaces[pfx]
                                    removed.append((pfx, uri))
                                except xml.dom.DOMException:
                                    pass
                        if r.selectorText != text0 or pairs_of(r) != pairs0:
                            raise Violation('ns:detached-rule-changed-by-edit-of-former-sheet',
                                            f'{step}: {text0!r} became {r.selectorText!r} after deleting {removed}')
                        for pfx, uri in removed:
                            A.namespaces[pfx] = uri
                        A.add(r)
                elif kind == 'detach-reattach':
                    rs = [r for r in A.cssRules if r.type == r.STYLE_RULE]
                    if rs:
                        r = rs[o[1] % len(rs)]
                        A.deleteRule(r)
                        text_detached = r.selectorText
                        A.add(r)
            except xml.dom.DOMException as e:
                rejected = e
            except Violation:
                raise
            except Exception as e:  # noqa: BLE001
                raise Violation('crash:' + kind + ':' + frame_sig(e), f'{step}: {e!r}')
            for sh in (A, B):
                for r in style_rules(sh):
                    if id(r) not in known:
                        known[id(r)] = (r, pairs_of(r))
            ctx.event('op:' + kind + (':rejected' if rejected else ''))
            check_sheet(A, known, step, 'A')
            check_sheet(B, known, step, 'B')
            if not rejected and kind in ('set', 'del', 'insertNs', 'deleteNs', 'prefix'):
                kinds.add(kind)
        alive = any(any(p for p in pairs) for r, pairs in known.values() for pairs in [pairs])
        ctx.case(case, len(kinds) >= 2 and alive, {'init': INIT[case['init']], 'ops': case['ops'], 'final': A.cssText.decode('utf-8', 'replace')})
    finally:
        cssutils.log.raiseExceptions = saved


SUBS = [
    Sub('history', check, strategy=strategy, quick=8000, thorough=200000, shards_quick=8, budget_quick=90),
]


# --------------------------------------------------------------------------- scenarios (regressions and listed findings)


def scenario_cases(tier):
    for n in ('prefix-becomes-default', 'foreign-rule-with-undeclared-namespace', 'prefix-on-default-rule', 'del-behind-import',
              'rebind-through-mapping', 'bound-prefix-redeclared-with-used-uri', 'rule-text-rebinds-uri-to-bound-prefix',
              'default-declared-after-unprefixed-selectors', 'detached-after-rebinding', 'uri-with-escaped-quote',
              'used-namespace-deleted-through-the-list', 'later-declaration-of-a-prefix-loses', 'hex-escaped-prefix'):
        yield {'name': n}


def check_scenario(case, ctx):
    name = case['name']
    ctx.case(name, True, case)
    saved = cssutils.log.raiseExceptions
    cssutils.log.raiseExceptions = True
    try:
        parse = cssutils.CSSParser(fetcher=fetcher).parseString
        if name == 'prefix-becomes-default':
            s = parse('@namespace p "%s"; [p|x], p|a { top: 0 }' % P)
            cssutils.log.raiseExceptions = True
            before = pairs_of(style_rules(s)[0])
            try:
                s.cssRules[0].prefix = ''
            except xml.dom.DOMException:
                return
            cssutils.log.raiseExceptions = False
            after = [pairs_of(r) for r in style_rules(parse(s.cssText))]
            if after != [before]:
                raise Violation('scenario:attribute-loses-namespace-when-prefix-becomes-default', f'{s.cssText!r}: {after} was {before}')
        elif name == 'foreign-rule-with-undeclared-namespace':
            a = parse('@namespace p "%s"; p|a { top: 0 }' % P)
            b = parse('z { top: 0 }')
            cssutils.log.raiseExceptions = True
            r = style_rules(a)[0]
            a.deleteRule(r)
            try:
                b.add(r)
            except xml.dom.DOMException:
                return
            try:
                check_sheet(b, {}, 'add foreign rule', 'B')
            except Violation as v:
                raise Violation('scenario:rule-with-undeclared-namespace-accepted', v.msg)
        elif name == 'prefix-on-default-rule':
            s = parse('@namespace "%s"; a { top: 0 }' % D)
            cssutils.log.raiseExceptions = True
            s.cssRules[0].prefix = 'p'
            check_sheet(s, {}, 'prefix = p on default rule', 'A')
            if s.cssRules[0].namespaceURI != D or '"%s"' % D not in s.cssRules[0].cssText:
                raise Violation('ns:malformed-namespace-rule-serialised', s.cssRules[0].cssText)
        elif name == 'del-behind-import':
            s = parse('@import "x.css"; @namespace p "%s"; @namespace q "%s"; q|a { top: 0 }' % (P, Q))
            cssutils.log.raiseExceptions = True
            del s.namespaces['p']
            types = [r.type for r in s.cssRules]
            if types != [3, 10, 1] or dict(s.namespaces.items()) != {'q': Q}:
                raise Violation('ns:del-removed-wrong-rule', f'{s.cssText!r}')
            try:
                del s.namespaces['q']
                raise Violation('ns:used-namespace-deleted', f'{s.cssText!r}')
            except xml.dom.DOMException:
                pass
        elif name == 'bound-prefix-redeclared-with-used-uri':
            s = parse('@namespace p "b"; @namespace q "c"; q|x { left: 0 }')
            cssutils.log.raiseExceptions = True
            before = snapshot(s)
            try:
                s.add(css.CSSNamespaceRule(prefix='p', namespaceURI='c'))
            except xml.dom.DOMException:
                if snapshot(s) != before:
                    raise Violation('scenario:rejected-namespace-insert-deleted-a-used-rule', f'{before[0]!r} -> {s.cssText!r}')
                return
            try:
                check_sheet(s, {}, 'add p -> c', 'A')
            except Violation as v:
                raise Violation('scenario:rejected-namespace-insert-deleted-a-used-rule', v.msg)
        elif name == 'rule-text-rebinds-uri-to-bound-prefix':
            s = parse('@namespace p "a"; @namespace q "b"; p|x, q|y { left: 0 }')
            cssutils.log.raiseExceptions = True
            before = [pairs_of(r) for r in style_rules(s)]
            try:
                s.cssRules[0].cssText = '@namespace q "a";'
            except xml.dom.DOMException:
                return
            prefixes = [r.prefix for r in ns_rules(s)]
            cssutils.log.raiseExceptions = False
            after = [pairs_of(r) for r in style_rules(parse(s.cssText))]
            if len(set(prefixes)) != len(prefixes) or after != before:
                raise Violation('scenario:namespace-rule-text-creates-duplicate-prefix', f'{s.cssText!r}: prefixes {prefixes}; selectors re-resolve to {after}, were {before}')
        elif name == 'default-declared-after-unprefixed-selectors':
            s = parse('a, * { left: 0 }')
            cssutils.log.raiseExceptions = True
            s.namespaces[''] = 'd'
            cssutils.log.raiseExceptions = False
            after = [pairs_of(r) for r in style_rules(parse(s.cssText))]
            allowed = ([((('type-selector', 'd', 'a'),), (('universal', 'd', '*'),))], [((('type-selector', -1, 'a'),), (('universal', -1, '*'),))],
                       [((('type-selector', None, 'a'),), (('universal', None, '*'),))])
            if after not in allowed:
                raise Violation('scenario:unprefixed-selectors-written-as-no-namespace', f'{s.cssText!r} re-resolves to {after}')
        elif name == 'detached-after-rebinding':
            s = parse('@namespace p "a"; p|x { left: 0 }')
            cssutils.log.raiseExceptions = True
            rule = style_rules(s)[0]
            ns_rules(s)[0].prefix = 'q'
            s.namespaces['p'] = 'b'
            rule.selectorList.appendSelector('p|z')
            want = pairs_of(rule)
            s.deleteRule(rule)
            t = css.CSSStyleSheet()
            t.namespaces['p'] = 'b'
            t.namespaces['q'] = 'a'
            cssutils.log.raiseExceptions = False
            try:
                t.add(rule)
            except xml.dom.DOMException:
                return
            got = [pairs_of(r) for r in style_rules(parse(t.cssText))]
            if got != [want]:
                raise Violation('scenario:detached-rule-keeps-stale-prefix-snapshot', f'{t.cssText!r} re-resolves to {got}, the rule meant {want}')
        elif name == 'uri-with-escaped-quote':
            cssutils.log.raiseExceptions = False
            s = parse('@namespace p \'a\\"\'; p|x { left: 0 }')
            re_ = parse(s.cssText)
            if dict(re_.namespaces.items()) != dict(s.namespaces.items()) or len(style_rules(re_)) != len(style_rules(s)):
                raise Violation('scenario:namespace-uri-with-escaped-quote', f'{s.cssText!r} reparses to namespaces {dict(re_.namespaces.items())}')
        elif name == 'used-namespace-deleted-through-the-list':
            # del / pop / remove on sheet.cssRules are public ways to delete a rule
            for how in ('del', 'pop', 'remove'):
                s = parse('@namespace p "%s"; p|x { left: 0 }' % P)
                r0 = s.cssRules[0]
                try:
                    if how == 'del':
                        del s.cssRules[0]
                    elif how == 'pop':
                        s.cssRules.pop(0)
                    else:
                        s.cssRules.remove(r0)
                except (xml.dom.DOMException, NotImplementedError):
                    continue
                try:
                    check_sheet(s, {}, how + ' on cssRules', 'A')
                except Violation as v:
                    raise Violation('scenario:list-deletion-bypasses-the-in-use-check', f'{how}: {v.msg}'[:600])
        elif name == 'later-declaration-of-a-prefix-loses':
            # the parser lets the later of two declarations of a prefix win; an inserted rule must do the same
            ref = parse('@namespace p "%s"; @namespace p "%s"; p|x { top: 0 }' % (P, Q))
            want = dict(ref.namespaces.items())
            s = parse('@namespace p "%s";' % P)
            try:
                s.add(css.CSSNamespaceRule(namespaceURI=Q, prefix='p'))
            except xml.dom.DOMException:
                return
            if dict(s.namespaces.items()) != want:
                raise Violation('scenario:inserted-later-declaration-of-a-prefix-is-dropped',
                                f'add(@namespace p "{Q}") after @namespace p "{P}": mapping {dict(s.namespaces.items())}, the parser gives {want} for the same two rules')
        elif name == 'hex-escaped-prefix':
            s = parse('@namespace \\31 p "%s"; \\31 p|x { top: 0 }' % P)
            before = [pairs_of(r) for r in style_rules(s)]
            cssutils.log.raiseExceptions = False
            after = [pairs_of(r) for r in style_rules(parse(s.cssText))]
            if before and after != before:
                raise Violation('scenario:hex-escaped-prefix-written-raw', f'{s.cssText!r}: {after} was {before}')
        elif name == 'rebind-through-mapping':
            s = parse('@namespace "%s"; @namespace p "%s"; a, p|b { top: 0 }' % (D, P))
            cssutils.log.raiseExceptions = True
            before = pairs_of(style_rules(s)[0])
            s.namespaces['n'] = P  # re-bind the URI of p to prefix n
            check_sheet(s, {}, 'namespaces[n] = P', 'A')
            if pairs_of(style_rules(s)[0]) != before:
                raise Violation('ns:selector-meaning-changed', s.cssText)
    finally:
        cssutils.log.raiseExceptions = saved


SUBS.append(Sub('scenario', check_scenario, enumerate=scenario_cases, shards_quick=1, shards_thorough=1))


# --------------------------------------------------------------------------- parsed texts with well- and misplaced @namespace rules

FRAGMENTS = ['@namespace a "%s";' % P, '@namespace a "%s";' % Q, '@namespace "%s";' % D, '@namespace b "%s";' % P, 'x { top: 0 }',
             'a|y { top: 0 }', 'b|z { top: 0 }', '@media print { a|m { top: 0 } }', '/* c */', '@import "i.css";', '*|w, |v, u { top: 0 }',
             '[a|t], [s] { top: 0 }', '@foo;', '@namespace c "%s";' % N, 'c|r:not(a|q) { top: 0 }']
parsed_strategy = st.fixed_dictionaries({
    'parts': st.lists(st.integers(0, len(FRAGMENTS) - 1), min_size=1, max_size=7),
    'assign': st.booleans(),
})


def check_parsed(case, ctx):
    text = ' '.join(FRAGMENTS[i] for i in case['parts'])
    saved = cssutils.log.raiseExceptions
    cssutils.log.raiseExceptions = False
    try:
        try:
            if case['assign']:
                sheet = cssutils.CSSParser(fetcher=fetcher).parseString('@namespace a "%s"; a|k { top: 0 }' % P)
                sheet.cssText = text
            else:
                sheet = cssutils.CSSParser(fetcher=fetcher).parseString(text)
        except Exception as e:  # noqa: BLE001
            raise Violation('crash:parse:' + frame_sig(e), f'{text!r}: {e!r}')
        check_sheet(sheet, {}, f'parse of {text!r}', 'parsed')
        # a selector can only resolve through a declaration that precedes it in the text
        ns_seen = {}
        body = False
    finally:
        cssutils.log.raiseExceptions = saved
    kinds = {FRAGMENTS[i].split()[0] for i in case['parts']}
    ctx.case(text, '@namespace' in kinds and len(kinds) >= 2, {'text': text, 'result': sheet.cssText.decode('utf-8', 'replace')})


SUBS.append(Sub('parsed', check_parsed, strategy=parsed_strategy, quick=4000, thorough=150000, shards_quick=8, budget_quick=60))

# --------------------------------------------------------------------------- resolution oracle: prefixes are case-sensitive names

RES_PREFIXES = ['a', 'A', 'b', 'Svg', 'é']
RES_URIS = [P, Q, N, D, 'urn:x']
# selector templates: (text with {p} for the prefix, [(item type, 'P' | 'ANY' | 'NONE' | 'DEFAULT', local name)])
SEL_T = [
    ('{p}|y', [('type-selector', 'P', 'y')]),
    ('{p}|cap > u', [('type-selector', 'P', 'cap'), ('type-selector', 'DEFAULT', 'u')]),
    ('[{p}|t]', [('attribute-selector', 'P', 't')]),
    ('[{p}|t=v].k', [('attribute-selector', 'P', 't')]),
    ('{p}|*', [('universal', 'P', '*')]),
    ('x:not({p}|q)', [('type-selector', 'DEFAULT', 'x'), ('negation-type-selector', 'P', 'q')]),
    ('*:not({p}|*)', [('universal', 'DEFAULT', '*'), ('universal', 'P', '*')]),
    ('*|w', [('type-selector', 'ANY', 'w')]),
    ('|v', [('type-selector', 'NONE', 'v')]),
    ('u[s]', [('type-selector', 'DEFAULT', 'u')]),
    ('{p}|m {p}|n', [('type-selector', 'P', 'm'), ('type-selector', 'P', 'n')]),
]
res_rule = st.tuples(st.lists(st.tuples(st.integers(0, len(SEL_T) - 1), st.sampled_from(RES_PREFIXES)), min_size=1, max_size=3), st.booleans())
res_strategy = st.fixed_dictionaries({
    # every prefix has its own URI: cssutils keeps one prefix per URI by design (the last one), which is not what this sub is about
    'decls': st.lists(st.sampled_from(RES_PREFIXES + ['']), max_size=4, unique=True).map(
        lambda ps: [(q, dict(zip(RES_PREFIXES + [''], RES_URIS + ['urn:default']))[q]) for q in ps]),
    'rules': st.lists(res_rule, min_size=1, max_size=4),
    'escape': st.booleans(),
    'assign': st.booleans(),
})


def check_resolution(case, ctx):
    decls = [tuple(d) for d in case['decls']]
    mapping = {}
    for pfx, uri in decls:
        mapping[pfx] = uri
    default = mapping.get('', None)

    def spell(pfx):
        # a hex escape of the first letter is the same prefix
        return ('\\%x ' % ord(pfx[0])) + pfx[1:] if case['escape'] and pfx[0] in 'abA' else pfx

    text = ' '.join(('@namespace %s "%s";' % (pfx, uri)) if pfx else ('@namespace "%s";' % uri) for pfx, uri in decls)
    expected = []
    for sels, in_media in [(r[0], r[1]) for r in case['rules']]:
        stext, pairs, ok = [], [], True
        for ti, pfx in sels:
            tmpl, items = SEL_T[ti]
            stext.append(tmpl.replace('{p}', spell(pfx)))
            one = []
            for typ, how, name in items:
                if how == 'P':
                    if pfx not in mapping:
                        ok = False
                    one.append((typ, mapping.get(pfx), name))
                elif how == 'ANY':
                    one.append((typ, cssutils._ANYNS, name))
                elif how == 'NONE':
                    one.append((typ, '', name))
                else:
                    one.append((typ, default, name))
            pairs.append(tuple(one))
        rule = ', '.join(stext) + ' { top: 0 }'
        text += ' ' + ('@media print { %s }' % rule if in_media else rule)
        if ok:
            expected.append(tuple(pairs))
    saved = cssutils.log.raiseExceptions
    cssutils.log.raiseExceptions = False
    try:
        try:
            if case['assign']:
                sheet = cssutils.CSSParser(fetcher=fetcher).parseString('@namespace zz "urn:old"; zz|k { top: 0 }')
                sheet.cssText = text
            else:
                sheet = cssutils.CSSParser(fetcher=fetcher).parseString(text)
            got = [pairs_of(r) for r in style_rules(sheet)]
            gmap = dict(sheet.namespaces.items())
        except Exception as e:  # noqa: BLE001
            raise Violation('crash:parse:' + frame_sig(e), f'{text!r}: {e!r}')
        if gmap != mapping:
            raise Violation('resolve:mapping', f'{text!r}: {gmap} expected {mapping}')
        if got != expected:
            kept = len(got) != len(expected)
            raise Violation('resolve:' + ('rule-with-undeclared-prefix-kept-or-declared-dropped' if kept else 'prefix-resolves-to-other-uri'),
                            f'{text!r}: {got} expected {expected}')
        check_sheet(sheet, {}, f'parse of {text!r}', 'resolution')
    finally:
        cssutils.log.raiseExceptions = saved
    caps = len({pfx.lower() for pfx, _ in decls}) < len({pfx for pfx, _ in decls})
    ctx.event('resolution:case-variants-declared' if caps else 'resolution:plain')
    ctx.case(text, len(decls) >= 2 and bool(expected), {'text': text, 'mapping': mapping})


SUBS.append(Sub('resolution', check_resolution, strategy=res_strategy, quick=3000, thorough=150000, shards_quick=8, budget_quick=60))
