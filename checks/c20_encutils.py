"""C20 — encutils reports the document encoding by the documented precedence."""

import codecs
import io
import itertools
from email.message import Message

from hypothesis import strategies as st

import encutils
from vlib.reported import reported_sub
from vlib.runner import Sub, Violation, lib

PROPERTY = 'C20'
RULE = (
    'table: the full cross product media type (13 spellings of 7 families, missing Content-Type, no response) x transport '
    'charset (absent / 3 values, lower and upper case) x XML part (none, declaration without encoding, declaration with 3 '
    'encodings, five BOMs, BOM + contradicting declaration) x HTML meta (absent, without charset, 3 charsets) x document as '
    'str or bytes - enumerated exhaustively - compared on encoding / mismatch / http_encoding / xml_encoding / '
    'meta_encoding with a decision procedure written from the getEncodingInfo docstring. sniff: generated documents for '
    'detectXMLEncoding (str, text streams and byte streams at arbitrary positions; tell() must be unchanged), getMetaInfo '
    '(attribute order, quoting, case) and encodingByMediaType. Non-trivial: >=2 sources of encoding information present; '
    'distinct by row.'
    ' broken: markup the HTML parser rejects or that has attributes without value, as text and bytes, under four (media type, transport '
    'charset) settings: the sniffers and getEncodingInfo must not raise and the transport charset still wins.'
    " Media types that merely CONTAIN '+xml', processing instructions that are no XML declaration ('<?xml-stylesheet ... encoding=...?>')."
)
ASSUMPTIONS = [
    'documents have at least 4 characters (shorter ones are pinned to None by the suite)',
    'in str documents a BOM is written as the byte-valued characters (the way detectXMLEncoding defines it)',
    'encoding names are compared through codecs.lookup; where a row needs the transport charset to agree with a UTF-16/32 BOM it uses the BOM name as spelled by the sniffer',
    'a response without Content-Type header counts as text/plain (email.message default)',
]
EXHAUSTIVE = True

MEDIA = [('application/xml', 'appxml'), ('application/xhtml+xml', 'appxml'), ('application/xml-dtd', 'appxml'),
         ('Application/RSS+XML', 'appxml'), ('text/xml', 'textxml'), ('text/foo+xml', 'textxml'),
         ('text/xml-external-parsed-entity', 'textxml'), ('text/html', 'html'), ('TEXT/HTML', 'html'),
         ('text/css', 'css'), ('text/plain', 'text'), ('image/png', 'other'), ('application/octet-stream', 'other'),
         (None, 'text'), ('NORESPONSE', 'none')]
CHARSETS = [None, 'utf-8', 'koi8-r', 'windows-1251']
BOMS = {'bom8': (b'\xef\xbb\xbf', 'utf-8'), 'bom16le': (b'\xff\xfe', 'utf_16_le'), 'bom16be': (b'\xfe\xff', 'utf_16_be'),
        'bom32le': (b'\xff\xfe\x00\x00', 'utf_32_le'), 'bom32be': (b'\x00\x00\xfe\xff', 'utf_32_be')}
XMLPARTS = ['none', 'decl', 'decl:utf-8', 'decl:koi8-r', 'decl:windows-1251', 'bom8', 'bom16le', 'bom16be', 'bom32le',
            'bom32be', 'bom8+decl:koi8-r']
METAS = ['none', 'nocharset', 'utf-8', 'koi8-r', 'windows-1251']


def canon(e):
    if e is None:
        return None
    try:
        return codecs.lookup(e).name
    except LookupError:
        return 'unknown:' + e


class Resp:
    def __init__(self, media, charset):
        self.m = Message()
        if media is not None:
            self.m['Content-Type'] = media + ('; charset=%s' % charset if charset else '')
        elif charset:
            self.m['Content-Type'] = 'text/plain; charset=%s' % charset

    def info(self):
        return self.m


def build_doc(xmlpart, meta, upper):
    bom = b''
    declared = None
    parts = xmlpart.split('+')
    decl = ''
    for p in parts:
        if p.startswith('bom'):
            bom = BOMS[p][0]
        elif p.startswith('decl'):
            declared = p[5:] if ':' in p else None
            enc = (' encoding="%s"' % (declared.upper() if upper else declared)) if declared else ''
            decl = '<?xml version="1.0"%s?>\n' % enc
    m = ''
    if meta == 'nocharset':
        m = '<meta http-equiv="Content-Type" content="text/html">'
    elif meta != 'none':
        m = '<meta http-equiv="Content-Type" content="text/html; charset=%s">' % (meta.upper() if upper else meta)
    body = decl + '<html><head>' + m + '</head><body>text</body></html>'
    return bom, body, declared


def table_cases(tier):
    for (media, fam), http, xmlpart, meta, kind, upper in itertools.product(
            MEDIA, CHARSETS, XMLPARTS, METAS, ('str', 'bytes'), (False, True)):
        if media == 'NORESPONSE' and http:
            continue
        yield {'media': media, 'family': fam, 'http': http, 'xml': xmlpart, 'meta': meta, 'kind': kind, 'upper': upper}


def decide(case, bomname, declared):
    fam = case['family']
    http = case['http'].lower() if case['http'] else None
    if fam == 'none':
        # no response at all: XML iff the text looks like XML
        probe = case['_text30']
        fam = 'appxml' if '<?xml version=' in probe else 'other'
    xml = None
    if fam in ('appxml', 'html'):
        xml = bomname or (declared.lower() if declared else None) or ('utf-8' if fam == 'appxml' else None)
    meta = None
    if fam in ('html', 'text') and case['meta'] not in ('none', 'nocharset'):
        meta = case['meta'].lower()
    default = {'appxml': xml, 'html': meta or 'iso-8859-1', 'textxml': 'ascii', 'text': 'iso-8859-1', 'css': 'utf-8',
               'other': None}[fam]
    encoding = http or default
    known = [canon(x) for x in (http, xml, meta) if x]
    mismatch = len(set(known)) > 1
    return encoding, mismatch, http, xml, meta


def check_table(case, ctx):
    bom, body, declared = build_doc(case['xml'], case['meta'], case['upper'])
    bomname = next((BOMS[p][1] for p in case['xml'].split('+') if p.startswith('bom')), None)
    http_spelled = case['http'].upper() if (case['http'] and case['upper']) else case['http']
    if case['kind'] == 'str':
        text = bom.decode('latin-1') + body
    else:
        text = bom + body.encode('ascii')
    c = dict(case)
    c['_text30'] = (bom.decode('latin-1') + body)[:30]
    exp = decide(c, bomname, declared)
    resp = None if case['media'] == 'NORESPONSE' else Resp(case['media'], http_spelled)
    with lib('getEncodingInfo:' + case['kind']):
        info = encutils.getEncodingInfo(resp, text)
    got = (info.encoding, info.mismatch, info.http_encoding, info.xml_encoding, info.meta_encoding)
    names = ('encoding', 'mismatch', 'http_encoding', 'xml_encoding', 'meta_encoding')
    for n, g, e in zip(names, got, exp):
        if n == 'mismatch':
            ok = bool(g) == e and isinstance(g, bool)
        else:
            ok = canon(g) == canon(e) and (g is None or (isinstance(g, str) and g == g.lower()))
        if not ok:
            raise Violation(f'table:{n}:{case["kind"]}', f'{case}: {n} = {g!r}, documented rules give {e!r} (all: {got} vs {exp})')
    sources = sum(1 for x in exp[2:] if x)
    ctx.event('family:' + case['family'])
    ctx.case(case, sources >= 2, {**case, 'result': list(got)})


# --------------------------------------------------------------------------- sniffers

DECLS = ['', '<?xml version="1.0"?>', '<?xml version="1.0" encoding="koi8-r"?>', "<?xml version='1.0' encoding='ISO-8859-5' standalone='yes'?>",
         '<?xml version="1.0" encoding="UTF-16"?>', ' <?xml version="1.0" encoding="koi8-r"?>', '<?xml encoding="x"',
         '<?xml version="1.0"\n encoding="windows-1251" ?>', '<?xml version="1.0" encoding = "koi8-r"?>',
         "<?xml version = '1.0' encoding\t=\n'ISO-8859-5'?>",
         # other processing instructions are no XML declaration
         '<?xml-stylesheet type="text/css" href="s.css" title="encoding=\'koi8-r\'"?>\n<a/>', '<?xml-model href="m" encoding="koi8-r"?><a/>',
         '<?xmlfoo encoding="koi8-r"?>']
DECL_ENC = [None, None, 'koi8-r', 'iso-8859-5', 'utf-16', None, None, 'windows-1251', 'koi8-r', 'iso-8859-5', None, None, None]


@st.composite
def sniff_case(draw):
    bom = draw(st.sampled_from([None, None] + sorted(BOMS)))
    d = draw(st.integers(0, len(DECLS) - 1))
    tail = draw(st.text('abc <>/="\n', max_size=20)) + 'xxxx'
    return {'bom': bom, 'decl': d, 'tail': tail, 'kind': draw(st.sampled_from(['str', 'stringio', 'bytesio', 'bytes'])),
            'pos': draw(st.integers(0, 30)), 'default': draw(st.booleans())}


def check_sniff(case, ctx):
    bom = BOMS[case['bom']][0] if case['bom'] else b''
    doc = DECLS[case['decl']] + case['tail']
    exp = BOMS[case['bom']][1] if case['bom'] else (DECL_ENC[case['decl']] or ('utf-8' if case['default'] else None))
    raw = bom + doc.encode('ascii')
    kind = case['kind']
    pos = min(case['pos'], len(raw))
    if kind == 'str':
        fp = raw.decode('latin-1')
    elif kind == 'bytes':
        fp = raw
    elif kind == 'stringio':
        fp = io.StringIO(raw.decode('latin-1'))
        fp.seek(pos)
    else:
        fp = io.BytesIO(raw)
        fp.seek(pos)
    with lib('detectXMLEncoding:' + kind):
        got = encutils.detectXMLEncoding(fp, includeDefault=case['default'])
    if canon(got) != canon(exp) or (got is not None and got != got.lower()):
        raise Violation('sniff:xml:' + kind, f'{raw[:60]!r} ({kind}) -> {got!r}, expected {exp!r}')
    if kind in ('stringio', 'bytesio') and fp.tell() != pos:
        raise Violation('sniff:stream-position-moved', f'{kind}: was {pos}, now {fp.tell()}')
    ctx.event('kind:' + kind)
    ctx.case([raw.hex(), kind, pos, case['default']], bool(case['bom']) or DECL_ENC[case['decl']] is not None,
             {'doc': raw[:50].decode('latin-1'), 'kind': kind, 'pos': pos, 'result': got})


@st.composite
def meta_case(draw):
    charset = draw(st.sampled_from([None, 'utf-8', 'KOI8-R', 'windows-1251']))
    q = draw(st.sampled_from(['"', "'"]))
    he = draw(st.sampled_from(['http-equiv', 'HTTP-EQUIV', 'Http-Equiv']))
    ct = draw(st.sampled_from(['Content-Type', 'content-type', 'CONTENT-TYPE']))
    media = draw(st.sampled_from(['text/html', 'application/xhtml+xml', 'TEXT/HTML']))
    sep = draw(st.sampled_from(['; ', ';', ' ; ']))
    content = media + (sep + 'charset=' + charset if charset else '')
    a1 = f'{he}={q}{ct}{q}'
    a2 = f'content={q}{content}{q}'
    attrs = [a1, a2, 'lang="en"'] if draw(st.booleans()) else [a2, a1]
    if draw(st.integers(0, 3)) == 0:
        attrs.insert(draw(st.integers(0, len(attrs))), draw(st.sampled_from(['itemscope', 'data-x', 'charset'])))  # attribute without value
    tag = '<' + draw(st.sampled_from(['meta', 'META'])) + ' ' + ' '.join(attrs) + draw(st.sampled_from(['>', ' />', '/>']))
    before = draw(st.sampled_from(['<html><head>', '<head><title>x</title>', '<meta name="a" content="b">', '', '<meta itemscope>',
                                   '<!DOCTYPE html>', '<!-- c -->']))
    second = draw(st.sampled_from(['', '<meta http-equiv="Content-Type" content="text/html; charset=ascii">']))
    return {'doc': before + tag + second + '</head>', 'media': media.lower(), 'charset': charset,
            'kind': draw(st.sampled_from(['str', 'bytes']))}


def check_meta(case, ctx):
    doc = case['doc'] if case['kind'] == 'str' else case['doc'].encode('ascii')
    with lib('getMetaInfo:' + case['kind']):
        got = encutils.getMetaInfo(doc)
    exp = (case['media'], case['charset'].lower() if case['charset'] else None)
    if got != exp:
        raise Violation('sniff:meta:' + case['kind'], f'{case["doc"]!r} -> {got!r}, expected {exp!r}')
    ctx.case([case['doc'], case['kind']], case['charset'] is not None, {'doc': case['doc'], 'result': list(got)})


MT = [('application/xml', 'utf-8'), ('application/atom+xml', 'utf-8'), ('application/xml-dtd', 'utf-8'),
      ('application/xml-external-parsed-entity', 'utf-8'), ('text/xml', 'ascii'), ('text/vnd.x+xml', 'ascii'),
      ('text/xml-external-parsed-entity', 'ascii'), ('text/html', 'iso-8859-1'), ('text/css', 'utf-8'),
      ('text/plain', 'iso-8859-1'), ('text/javascript', 'iso-8859-1'), ('image/png', None), ('application/json', None),
      ('', None), (None, None),
      # only a name that ENDS in +xml belongs to the XML families
      ('application/foo+xmlx', None), ('application/x+xml-compressed', None), ('application/a+xml+zip', None), ('text/foo+xmlx', 'iso-8859-1'),
      ('application/vnd.mozilla.xul+xml', 'utf-8'), ('text/a.b+xml', 'ascii')]


def media_cases(tier):
    for mt, exp in MT:
        for variant in ((mt, mt.upper(), ' ' + mt + ' ') if mt else (mt,)):
            yield {'media': variant, 'expected': exp}


def check_media(case, ctx):
    with lib('encodingByMediaType'):
        got = encutils.encodingByMediaType(case['media'])
    if got != case['expected']:
        raise Violation('sniff:media-type-default', f'{case["media"]!r} -> {got!r}, expected {case["expected"]!r}')
    ctx.case(case['media'], True, case)


SUBS = [
    Sub('table', check_table, enumerate=table_cases, shards_quick=8, shards_thorough=16),
    Sub('sniff', check_sniff, strategy=sniff_case(), quick=4000, thorough=300000, shards_quick=4),
    Sub('meta', check_meta, strategy=meta_case(), quick=2000, thorough=100000, shards_quick=2),
    Sub('media', check_media, enumerate=media_cases, shards_quick=1, shards_thorough=1),
]


# --------------------------------------------------------------------------- markup the HTML parser chokes on: sniffing must not raise

BROKEN = ['<![foo]><meta http-equiv="Content-Type" content="text/html; charset=koi8-r">', '<![foo]>', '<![\n', '<meta charset>', '<meta itemscope>',
          '<meta http-equiv content>', '<a b="c', '<!-- unclosed', '<?php ?><meta http-equiv="Content-Type" content="text/html; charset=koi8-r">']


def broken_cases(tier):
    for doc in BROKEN:
        for kind in ('str', 'bytes'):
            for media, http in (('text/html', None), ('text/html', 'utf-8'), ('text/plain', None), ('application/xml', None)):
                yield {'doc': doc, 'kind': kind, 'media': media, 'http': http}


class _Resp:
    def __init__(self, media, charset):
        from email.message import Message

        self.m = Message()
        self.m['Content-Type'] = media + ('; charset=' + charset if charset else '')

    def info(self):
        return self.m


def check_broken(case, ctx):
    doc = case['doc'] if case['kind'] == 'str' else case['doc'].encode('ascii')
    with lib('getMetaInfo'):
        encutils.getMetaInfo(doc)
    with lib('getEncodingInfo'):
        info = encutils.getEncodingInfo(_Resp(case['media'], case['http']), doc, log=_quiet_log())
    if case['http'] and info.encoding != case['http']:
        raise Violation('broken:transport-charset-not-used', f'{case}: {info.encoding!r}')
    ctx.case([case['doc'], case['kind'], case['media'], case['http']], True, case)


def _quiet_log():
    import logging

    log = logging.getLogger('c20-quiet')
    log.setLevel(logging.CRITICAL)
    return log


SUBS.append(Sub('broken', check_broken, enumerate=broken_cases, shards_quick=1, shards_thorough=1))


SUBS.append(reported_sub('C20'))
