"""C17 — media lists are canonical ordered sets; media queries survive intact."""

import xml.dom

from hypothesis import strategies as st

import cssutils
from cssutils.stylesheets import MediaList, MediaQuery
from vlib.runner import Sub, Violation, lib

PROPERTY = 'C17'
RULE = (
    'list: an initial list (0..4 entries: the ten media types in any letter case, and queries with not/only, '
    '0..3 and-joined expressions with min-/max- features and length/number/ident/colour values; random white space '
    'and comments) owned by nothing, an @media rule or an @import rule, then 1..10 operations from appendMedium, '
    'deleteMedium, list[i]=, mediaText=; a reference model (ordered list; simple types once, all absorbs, empty=all) '
    'runs in lock-step; after every step length, item(i), iteration, the token sequence of every query, the reparse '
    'of mediaText and of the owning rule are compared; rejected operations must raise the documented DOM exception and '
    'leave the list unchanged. malformed: a valid list with one query damaged by a grammar-level mutation class must be '
    'rejected as a whole by mediaText=, appendMedium and when parsed in @media, leaving the list unchanged. '
    'Non-trivial (list): >=3 entries incl. a query with features at some point and >=1 edit; distinct by case.'
)
ASSUMPTIONS = [
    'calc() is outside the documented media query grammar and not generated',
    'MediaList.wellformed and len() (which counts comments) are not asserted; length/item/iteration are',
    'appending to an *empty* list is allowed (only a list that contains the type all rejects appends)',
    'list[i]= keeps the new entry in place and removes an older entry of the same simple type (all: every other entry), as setting mediaText canonicalises',
]

TYPES = ['all', 'braille', 'handheld', 'print', 'projection', 'speech', 'screen', 'tty', 'tv', 'embossed']
FEATURES = ['width', 'height', 'device-width', 'color', 'monochrome', 'resolution', 'orientation', 'grid', 'scan', 'aspect-ratio', 'device-aspect-ratio']
VALUES = ['10px', '1.5em', '2', '0', 'landscape', 'portrait', '#fff', '#00ff01', '300dpi', 'red', '-1px', '16/9', '4/3', '1/1']


@st.composite
def mtype(draw):
    t = draw(st.sampled_from(TYPES))
    c = draw(st.integers(0, 3))
    return t if c < 2 else (t.upper() if c == 2 else t.capitalize())


@st.composite
def expr(draw):
    f = draw(st.sampled_from(['', '', 'min-', 'max-'])) + draw(st.sampled_from(FEATURES))
    if draw(st.integers(0, 4)) == 0:
        f = f.upper()
    v = draw(st.one_of(st.none(), st.sampled_from(VALUES)))
    return [f, v]


@st.composite
def entry(draw, simple_bias=True):
    k = draw(st.integers(0, 9))
    if k < (5 if simple_bias else 1):
        return {'pre': None, 'type': draw(mtype()), 'exprs': []}
    if k < 7:
        return {'pre': draw(st.sampled_from([None, 'not', 'only', 'NOT'])), 'type': draw(mtype()),
                'exprs': draw(st.lists(expr(), min_size=0 if k == 5 else 1, max_size=3))}
    if k < 9:
        return {'pre': draw(st.sampled_from(['not', 'only'])), 'type': draw(mtype()), 'exprs': []}
    return {'pre': None, 'type': None, 'exprs': draw(st.lists(expr(), min_size=1, max_size=2))}


GAPS = [' ', ' ', '  ', '\n', ' /*c*/ ', '\t']
OPT = ['', '', ' ', '/*o*/', ' \n']


def render_entry(e, sp=0):
    """sp: spelling selector (int) - deterministic choice of gaps"""
    def gap(i):
        return GAPS[(sp + i * 7) % len(GAPS)] if sp else ' '

    def opt(i):
        return OPT[(sp + i * 5) % len(OPT)] if sp else ''

    parts = []
    if e['pre']:
        parts.append(e['pre'])
    if e['type']:
        parts.append(e['type'])
    out = ''
    for i, p in enumerate(parts):
        out += (gap(i) if i else '') + p
    n = 3
    for j, (f, v) in enumerate(e['exprs']):
        if out:
            # (cssutils reads "and(" as the keyword followed by an expression, in any letter case: pinned for lower case by the suite)
            out += gap(n) + ('AND' if sp % 11 == 3 else 'And' if sp % 11 == 7 else 'and') + ('' if sp % 5 == 2 else gap(n + 1))
        elif j:
            pass
        ex = '(' + opt(n) + f + opt(n + 1)
        if v is not None:
            ex += ':' + opt(n + 2) + v + opt(n + 3)
        ex += ')'
        if j and not out.endswith(tuple(GAPS)) and not out.endswith(' '):
            pass
        out += ex
        n += 4
    return out


def render_list(entries, sp=0):
    sep = [', ', ',', ' , ', ',\n', ', /*s*/'][sp % 5] if sp else ', '
    lead = '/*lead*/ ' if sp % 13 == 5 else ''
    return lead + sep.join(render_entry(e, sp + i if sp else 0) for i, e in enumerate(entries))


def simple(e):
    if e['pre'] is None and not e['exprs'] and e['type']:
        return e['type'].lower()
    return None


def ptoks(text):
    """comment/space-free, case-folded token sequence of a query text"""
    with lib('tokenize'):
        return tuple((t[0], t[1].lower()) for t in cssutils.tokenize2.Tokenizer().tokenize(text)
                     if t[0] not in ('S', 'COMMENT'))


def etoks(e):
    return ptoks(render_entry(e))


def canon(entries):
    out, seen = [], set()
    for e in entries:
        s = simple(e)
        if s == 'all':
            return [e]
        if s is not None:
            if s in seen:
                continue
            seen.add(s)
        out.append(e)
    return out


def meaning(toklist):
    """list of token tuples with [] == [all]"""
    return toklist if toklist else [(('IDENT', 'all'),)]


def observe(ml):
    with lib('observe'):
        n = ml.length
        qs = [ml[i] for i in range(len(ml))]
        texts = [q.mediaText for q in qs]
        items = [ml.item(i) for i in range(n)]
        beyond = ml.item(n)
        types = [q.mediaType for q in qs]
        text = ml.mediaText
        # the Python protocol must agree with the DOM one
        if len(ml) != n:
            raise Violation('protocol:len-differs-from-length', f'len {len(ml)} length {n} for {text!r}')
        indexed = [ml[i] for i in range(n)]
        if [getattr(x, 'mediaText', repr(x)) for x in indexed] != texts:
            raise Violation('protocol:indexing-differs-from-iteration', f'{[getattr(x, "mediaText", repr(x)) for x in indexed]} vs {texts} for {text!r}')
        try:
            ml[n]
            raise Violation('protocol:index-beyond-length', f'{text!r}[{n}]')
        except IndexError:
            pass
    return n, texts, items, beyond, types, text


def compare(ml, model, step, owner=None):
    n, texts, items, beyond, types, text = observe(ml)
    exp = [etoks(e) for e in model]
    got = [ptoks(t) for t in texts]
    if got != exp:
        raise Violation('model:entries', f'after {step}: library {texts} model {[render_entry(e) for e in model]}')
    if n != len(model) or beyond is not None:
        raise Violation('model:length', f'after {step}: length {n}, item(length)={beyond!r}, model {len(model)}')
    if model and not ml.wellformed:
        raise Violation('model:accepted-list-not-wellformed', f'after {step}: {text!r} holds only accepted media but wellformed is False (its owner rule would vanish)')
    expitems = [(e['type'] if simple(e) else '') for e in model]
    if [i.lower() for i in items] != [i.lower() for i in expitems] or [t.lower() for t in types] != [i.lower() for i in expitems]:
        raise Violation('model:item', f'after {step}: items {items} types {types} model {expitems}')
    # text reparses to an equal list
    try:
        with lib('reparse', expect=(xml.dom.DOMException,)):
            re_ = MediaList(text)
            got2 = [ptoks(re_[i].mediaText) for i in range(len(re_))]
    except xml.dom.DOMException as e:
        raise Violation('reparse:rejected', f'after {step}: mediaText {text!r} does not parse: {e}')
    if meaning(got2) != meaning(exp):
        raise Violation('reparse:differs', f'after {step}: mediaText {text!r} reparses to {got2}, list is {exp}')
    if not model and text != 'all':
        raise Violation('model:empty-is-all', f'after {step}: {text!r}')
    if owner is not None:
        kind, rule, parser = owner
        with lib('owner'):
            rt = rule.cssText
            if rule.media is not ml and kind != 'import':
                raise Violation('owner:media-object-replaced', f'after {step}')
            sheet2 = parser.parseString(rt)
            if sheet2.cssRules.length != 1 or sheet2.cssRules[0].type != rule.type:
                raise Violation('owner:rule-lost', f'after {step}: {rt!r}')
            m3 = sheet2.cssRules[0].media
            got3 = [ptoks(m3[i].mediaText) for i in range(len(m3))]
        if meaning(got3) != meaning(exp):
            raise Violation('owner:reparse-differs', f'after {step}: rule text {rt!r} gives {got3}, list is {exp}')


op = st.one_of(
    st.tuples(st.just('append'), entry(), st.integers(0, 30)),
    st.tuples(st.just('append'), entry(), st.just(0)),
    st.tuples(st.just('delete'), mtype()),
    st.tuples(st.just('setitem'), st.integers(0, 4), entry(), st.integers(0, 30)),
    st.tuples(st.just('delitem'), st.integers(0, 4)),
    st.tuples(st.just('text'), st.lists(entry(), min_size=1, max_size=4), st.integers(0, 30)),
)
list_strategy = st.fixed_dictionaries({
    'owner': st.sampled_from(['none', 'none', 'media', 'import']),
    'init': st.lists(entry(), max_size=4),
    'sp': st.integers(0, 30),
    'ops': st.lists(op, min_size=1, max_size=10),
}).map(lambda d: {**d, 'ops': [list(o) for o in d['ops']]})


def has_comment(ml):
    return any(not isinstance(x.value, MediaQuery) for x in ml._seq) if hasattr(ml, '_seq') else False


def check_list(case, ctx):
    saved = cssutils.log.raiseExceptions
    cssutils.log.raiseExceptions = True
    try:
        _check_list(case, ctx)
    finally:
        cssutils.log.raiseExceptions = saved


def _check_list(case, ctx):
    init = case['init']
    owner = None
    text = render_list(init, case['sp'])
    parser = cssutils.CSSParser(fetcher=lambda url: (None, ''), raiseExceptions=True)
    with lib('init'):
        if case['owner'] == 'none' or not init:
            ml = MediaList(text) if init else MediaList()
            kind = 'none'
        elif case['owner'] == 'media':
            sheet = parser.parseString('@media ' + text + ' { a { top: 0 } }')
            cssutils.log.raiseExceptions = True
            rule = sheet.cssRules[0]
            ml = rule.media
            owner = ('media', rule, parser)
            kind = 'media'
        else:
            sheet = parser.parseString('@import "x.css" ' + text + ';')
            cssutils.log.raiseExceptions = True
            rule = sheet.cssRules[0]
            ml = rule.media
            owner = ('import', rule, parser)
            kind = 'import'
    ctx.event('owner:' + kind)
    model = canon(init)
    compare(ml, model, 'init', owner)
    edits = 0
    rich = False
    for k, o in enumerate(case['ops']):
        step = f'op {k} {o!r}'
        if len(model) >= 3 and any(e['exprs'] for e in model):
            rich = True
        before = observe(ml)
        expect_exc = None
        newmodel = model
        if o[0] == 'append':
            e = o[1]
            s = simple(e)
            if any(simple(x) == 'all' for x in model):
                expect_exc = xml.dom.InvalidModificationErr
            elif s == 'all':
                newmodel = [e]
            elif s is not None and any(simple(x) == s for x in model):
                newmodel = [x for x in model if simple(x) != s] + [e]
            else:
                newmodel = model + [e]
            call = lambda: ml.appendMedium(render_entry(e, o[2]))  # noqa: E731
        elif o[0] == 'delete':
            t = o[1].lower()
            idx = next((i for i, x in enumerate(model) if simple(x) == t), None)
            if idx is None:
                expect_exc = xml.dom.NotFoundErr
            else:
                newmodel = model[:idx] + model[idx + 1:]
            call = lambda: ml.deleteMedium(o[1])  # noqa: E731
        elif o[0] == 'setitem':
            i, e = o[1], o[2]
            s = simple(e)
            if i >= len(model):
                ctx.event('excluded:setitem-out-of-range')
                continue
            if has_comment(ml):
                ctx.event('setitem-with-comments-in-list')
            # the new entry stays at its place; an older entry of the same simple type goes,
            # and 'all' replaces every other entry (as setting mediaText does it; finding F17-1, repaired)
            marked = [(j == i, x) for j, x in enumerate(model[:i] + [e] + model[i + 1:])]
            if s is not None and any(not isnew and (s == 'all' or simple(x) == s) for isnew, x in marked):
                ctx.event('setitem-canonicalises')
            newmodel = [x for isnew, x in marked if isnew or s is None or not (s == 'all' or simple(x) == s)]
            call = lambda: ml.__setitem__(i, render_entry(e, o[3]))  # noqa: E731
        elif o[0] == 'delitem':
            i = o[1]
            if i >= len(model):
                expect_exc = None
                ctx.event('excluded:delitem-out-of-range')
                continue
            newmodel = model[:i] + model[i + 1:]
            call = lambda: ml.__delitem__(i)  # noqa: E731
        else:
            newmodel = canon(o[1])
            call = lambda: setattr(ml, 'mediaText', render_list(o[1], o[2]))  # noqa: E731
        ctx.event('op:' + o[0] + (':rejected' if expect_exc else ''))
        try:
            with lib('op:' + o[0], expect=(xml.dom.DOMException,)):
                call()
            raised = None
        except xml.dom.DOMException as exc:
            raised = exc
        if expect_exc is not None:
            if raised is None or not isinstance(raised, expect_exc):
                raise Violation('reject:not-rejected:' + o[0], f'{step}: expected {expect_exc.__name__}, got {raised!r}; list {before[5]!r}')
            if observe(ml) != before:
                raise Violation('reject:list-changed', f'{step}: {before} -> {observe(ml)}')
        else:
            if raised is not None:
                raise Violation('op:valid-operation-rejected:' + o[0], f'{step}: {raised!r}; list {before[5]!r}')
            model = newmodel
            edits += 1
        compare(ml, model, step, owner)
    ctx.case(case, rich and edits >= 1, {'owner': kind, 'init': text, 'ops': [o[0] for o in case['ops']], 'final': ml.mediaText})


# ---------------------------------------------------------------------------
# malformed queries

MUT = ['unknown-type', 'missing-type', 'dangling-and', 'unclosed-paren', 'empty-expr', 'no-feature', 'empty-value',
       'two-values', 'and-ident', 'double-comma', 'stray-semicolon', 'stray-dimension', 'missing-and', 'nested-paren',
       'extra-close', 'trailing-comma', 'leading-comma', 'two-types']


def damage(e, kind):
    base = render_entry(e)
    first_expr = '(color)'
    if kind == 'unknown-type':
        return 'foo' if not e['exprs'] else 'foo and ' + first_expr
    if kind == 'missing-type':
        return 'not' if not e['exprs'] else 'not and ' + first_expr
    if kind == 'dangling-and':
        return (base if e['type'] else 'screen') + ' and'
    if kind == 'unclosed-paren':
        return (e['type'] or 'screen') + ' and (color'
    if kind == 'empty-expr':
        return (e['type'] or 'screen') + ' and ()'
    if kind == 'no-feature':
        return (e['type'] or 'screen') + ' and (: 1)'
    if kind == 'empty-value':
        return (e['type'] or 'screen') + ' and (min-width:)'
    if kind == 'two-values':
        return (e['type'] or 'screen') + ' and (color: 1 2)'
    if kind == 'and-ident':
        return (e['type'] or 'screen') + ' and color'
    if kind == 'double-comma':
        return base + ', '
    if kind == 'stray-semicolon':
        return base + '; print'
    if kind == 'stray-dimension':
        return '1x'
    if kind == 'missing-and':
        return (e['type'] or 'screen') + ' (color)'
    if kind == 'nested-paren':
        return (e['type'] or 'screen') + ' and ((color))'
    if kind == 'extra-close':
        return (e['type'] or 'screen') + ' and (color))'
    if kind == 'two-types':
        return (e['type'] or 'screen') + ' print'
    return base


mal_strategy = st.fixed_dictionaries({
    'good': st.lists(entry(), min_size=0, max_size=3),
    'victim': entry(),
    'pos': st.integers(0, 3),
    'kind': st.sampled_from(MUT),
    'prior': st.lists(entry(), min_size=0, max_size=3),
})


def check_malformed(case, ctx):
    saved = cssutils.log.raiseExceptions
    cssutils.log.raiseExceptions = True
    try:
        good = [render_entry(e) for e in case['good']]
        pos = min(case['pos'], len(good))
        kind = case['kind']
        bad = damage(case['victim'], kind)
        if kind == 'trailing-comma':
            parts = good + [render_entry(case['victim'])]
            text = ', '.join(parts) + ','
        elif kind == 'leading-comma':
            text = ', ' + ', '.join(good + [render_entry(case['victim'])])
        else:
            parts = good[:pos] + [bad] + good[pos:]
            text = ', '.join(parts)
        last = pos == len(good)
        where = 'last' if last or kind in ('trailing-comma', 'leading-comma') else 'before-comma'
        with lib('init'):
            ml = MediaList(render_list(case['prior'])) if case['prior'] else MediaList()
        before = observe(ml)
        try:
            with lib('mediaText=', expect=(xml.dom.DOMException,)):
                ml.mediaText = text
            raised = False
        except xml.dom.DOMException:
            raised = True
        if not raised:
            raise Violation(f'malformed-accepted:{kind}:{where}', f'mediaText = {text!r} accepted, list now {ml.mediaText!r}')
        if observe(ml) != before:
            raise Violation('malformed:list-changed-by-rejected-assignment', f'{text!r}: {before} -> {observe(ml)}')
        # appending the malformed query alone
        if kind not in ('trailing-comma', 'leading-comma', 'double-comma', 'stray-semicolon'):
            try:
                with lib('append', expect=(xml.dom.DOMException,)):
                    ml.appendMedium(bad)
                raised = False
            except xml.dom.DOMException:
                raised = True
            if not raised:
                raise Violation(f'malformed-accepted:{kind}:append', f'appendMedium({bad!r}) accepted, list now {ml.mediaText!r}')
            if observe(ml) != before:
                raise Violation('malformed:list-changed-by-rejected-append', f'{bad!r}: {before} -> {observe(ml)}')
        # in a sheet (log mode): the @media rule must not survive with a partial list
        cssutils.log.raiseExceptions = False
        with lib('parse'):
            sheet = cssutils.CSSParser().parseString('@media ' + text + ' { a { top: 0 } }\nb { left: 0 }')
            rules = [r for r in sheet.cssRules]
        kept = [r.cssText for r in rules if r.type == r.MEDIA_RULE and r.cssText]
        if kept or b'@media' in sheet.cssText:
            raise Violation(f'malformed-accepted:{kind}:{where}:in-sheet', f'@media {text} kept as {kept}')
        ctx.event('kind:' + kind)
        ctx.case([text, before[5]], bool(case['good']), {'text': text, 'kind': kind})
    finally:
        cssutils.log.raiseExceptions = saved


SUBS = [
    Sub('list', check_list, strategy=list_strategy, quick=6000, thorough=200000, shards_quick=8),
    Sub('malformed', check_malformed, strategy=mal_strategy, quick=3000, thorough=80000, shards_quick=4),
]


# ---------------------------------------------------------------------------
# item assignment that would need canonicalisation (excluded from 'list', finding F17-1)


def setitem_dup_cases(tier):
    yield {'init': ['print', 'tv'], 'index': 1, 'new': 'print'}
    yield {'init': ['print', 'tv'], 'index': 0, 'new': 'all'}
    yield {'init': ['print', 'tv', 'screen'], 'index': 2, 'new': 'PRINT'}


def check_setitem_dup(case, ctx):
    saved = cssutils.log.raiseExceptions
    cssutils.log.raiseExceptions = True
    try:
        with lib('setitem'):
            ml = MediaList(', '.join(case['init']))
            ml[case['index']] = case['new']
            text = ml.mediaText
            n = ml.length
            re_ = MediaList(text)
            n2 = re_.length
            t2 = re_.mediaText
        ctx.case(case, True, case)
        if (n, text) != (n2, t2):
            raise Violation('reparse:differs-after-setitem-duplicate', f'{case}: list {text!r} ({n}) reparses to {t2!r} ({n2})')
    finally:
        cssutils.log.raiseExceptions = saved


SUBS.append(Sub('setitem_dup', check_setitem_dup, enumerate=setitem_dup_cases, shards_quick=1, shards_thorough=1))


# --------------------------------------------------------------------------- iteration versus indexing: the objects (listed finding)


def itertypes_cases(tier):
    yield {'text': 'print, tv'}
    yield {'text': 'screen and (color), /*c*/ tv'}


def check_itertypes(case, ctx):
    ml = MediaList(case['text'])
    ctx.case(case['text'], True, case)
    a = [type(x).__name__ for x in ml]
    b = [type(ml[i]).__name__ for i in range(len(ml))]
    if a != b:
        raise Violation('protocol:iteration-yields-wrappers', f'{case["text"]!r}: iteration yields {a}, indexing {b}')


SUBS.append(Sub('itertypes', check_itertypes, enumerate=itertypes_cases, shards_quick=1, shards_thorough=1))


from vlib.reported import reported_sub  # noqa: E402

SUBS.append(reported_sub('C17'))
