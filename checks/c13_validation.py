"""C13 — the validation verdict depends only on name, value, profiles; it only annotates."""

from hypothesis import strategies as st

import re
import cssutils
import cssutils.profiles as PR
from cssutils.css import CSSStyleDeclaration, Property
from vlib import cssmodel as A
from vlib.reported import reported_sub
from vlib.runner import Sub, Violation, lib

PROPERTY = 'C13'
RULE = (
    'verdict: (property, value) pairs - 60 CSS 2.1 properties whose grammar is a keyword list or a single length / '
    'percentage / number / integer / colour / URI (+ keywords), and every other known property name - x values drawn from '
    'the property\'s own grammar, from other properties\' grammars and near misses (unit missing, wrong keyword, quoted '
    'keyword, extra component). Oracles: (1) the verdict is identical for 4 spellings of the value (keyword / unit / '
    'function-name case, white space and comments between components, number spellings, hash case), for 7 origins (parsed '
    'in a sheet, parseStyle, Property(), setProperty, item assignment, setProperty(Property object), after a '
    'serialise/parse round trip), in a style rule and consistently inside @font-face, and for every validation flag; '
    '(2) agreement with a structural reference for the CSS 2.1 grammar (valid => valid always; invalid => invalid for '
    'properties defined by one profile only); (3) unknown names are never valid; (4) declaration block / rule / sheet '
    'validity is the conjunction of ALL their declarations (repeated names, declarations nested in @media / @page / margin boxes, '
    '@font-face in its own context); (5) validate on/off gives identical content; (6) the verdict is the same for five spellings of the '
    'priority (upper case, white space, comment, escape; also through the API) and under serializer preferences that change how the value '
    'is written (omitLeadingZero, the minified preset, defaultPropertyPriority, minimizeColorHash). Values include near misses outside ASCII (Kelvin '
    'sign for k, long s for s, Arabic-Indic and full-width digits, NBSP) and numbers that only look integral after rounding. expect: '
    'zero lengths / integral floats where only a number / integer is allowed (listed finding). Non-trivial: the '
    'value is valid in one context or spelling class and a near miss exists, or has >= 2 components; distinct by (name, '
    'canonical value).'
    ' Names that only look like a known one after Unicode case folding (KELVIN SIGN for k, LONG S for s) must be unknown.'
)
ASSUMPTIONS = [
    'the reference table of CSS 2.1 keyword lists / value types is hand-written from the CSS 2.1 property index',
    'range restrictions from prose (negative widths etc.) are not asserted; values are generated non-negative',
    'CSS 2.1 system colours (ButtonFace ...) are not generated: the CSS3 colour profile, which redefines {color}, leaves them out on purpose (pinned by test_profiles; listed finding F13-3)',
    'a leading "+" on numbers is not generated for the reference direction (not matched by the profile macros: listed finding F13-1)',
    'the CSS3 Color keywords transparent / currentColor on colour properties are not judged by the CSS 2.1 grammar: the registered CSS3 Color profile redefines the {color} macro for all profiles (found by the thorough tier, an oracle over-reach, see DESIGN 9.5)',
]

BORDER_STYLE = ['none', 'hidden', 'dotted', 'dashed', 'solid', 'double', 'groove', 'ridge', 'inset', 'outset']
KW = {
    'background-attachment': ['scroll', 'fixed'], 'background-repeat': ['repeat', 'repeat-x', 'repeat-y', 'no-repeat'],
    'border-collapse': ['collapse', 'separate'], 'border-top-style': BORDER_STYLE, 'border-right-style': BORDER_STYLE,
    'border-bottom-style': BORDER_STYLE, 'border-left-style': BORDER_STYLE, 'caption-side': ['top', 'bottom'],
    'clear': ['none', 'left', 'right', 'both'], 'direction': ['ltr', 'rtl'], 'empty-cells': ['show', 'hide'],
    'float': ['left', 'right', 'none'], 'font-style': ['normal', 'italic', 'oblique'], 'font-variant': ['normal', 'small-caps'],
    'list-style-position': ['inside', 'outside'], 'page-break-after': ['auto', 'always', 'avoid', 'left', 'right'],
    'page-break-before': ['auto', 'always', 'avoid', 'left', 'right'], 'page-break-inside': ['avoid', 'auto'],
    'position': ['static', 'relative', 'absolute', 'fixed'], 'table-layout': ['auto', 'fixed'],
    'text-transform': ['capitalize', 'uppercase', 'lowercase', 'none'], 'unicode-bidi': ['normal', 'embed', 'bidi-override'],
    'visibility': ['visible', 'hidden', 'collapse'], 'white-space': ['normal', 'pre', 'nowrap', 'pre-wrap', 'pre-line'],
    'text-align': ['left', 'right', 'center', 'justify'],
    'list-style-type': ['disc', 'circle', 'square', 'decimal', 'decimal-leading-zero', 'lower-roman', 'upper-roman', 'lower-greek',
                        'lower-latin', 'upper-latin', 'armenian', 'georgian', 'lower-alpha', 'upper-alpha', 'none'],
}
# name -> (keywords, value types)
SPEC = {n: (k, ()) for n, k in KW.items()}
SPEC.update({
    'width': (['auto'], ('length', 'percentage')), 'height': (['auto'], ('length', 'percentage')),
    'min-width': ([], ('length', 'percentage')), 'min-height': ([], ('length', 'percentage')),
    'max-width': (['none'], ('length', 'percentage')), 'max-height': (['none'], ('length', 'percentage')),
    'top': (['auto'], ('length', 'percentage')), 'right': (['auto'], ('length', 'percentage')),
    'bottom': (['auto'], ('length', 'percentage')), 'left': (['auto'], ('length', 'percentage')),
    'margin-top': (['auto'], ('length', 'percentage')), 'margin-right': (['auto'], ('length', 'percentage')),
    'margin-bottom': (['auto'], ('length', 'percentage')), 'margin-left': (['auto'], ('length', 'percentage')),
    'padding-top': ([], ('length', 'percentage')), 'padding-right': ([], ('length', 'percentage')),
    'padding-bottom': ([], ('length', 'percentage')), 'padding-left': ([], ('length', 'percentage')),
    'border-top-width': (['thin', 'medium', 'thick'], ('length',)), 'border-right-width': (['thin', 'medium', 'thick'], ('length',)),
    'border-bottom-width': (['thin', 'medium', 'thick'], ('length',)), 'border-left-width': (['thin', 'medium', 'thick'], ('length',)),
    'letter-spacing': (['normal'], ('length',)), 'word-spacing': (['normal'], ('length',)),
    'text-indent': ([], ('length', 'percentage')), 'line-height': (['normal'], ('number', 'length', 'percentage')),
    'vertical-align': (['baseline', 'sub', 'super', 'top', 'text-top', 'middle', 'bottom', 'text-bottom'], ('length', 'percentage')),
    'z-index': (['auto'], ('integer',)), 'orphans': ([], ('integer',)), 'widows': ([], ('integer',)),
    'font-size': (['xx-small', 'x-small', 'small', 'medium', 'large', 'x-large', 'xx-large', 'larger', 'smaller'], ('length', 'percentage')),
    'font-weight': (['normal', 'bold', 'bolder', 'lighter'], ('weight',)),
    'color': ([], ('color',)), 'background-color': (['transparent'], ('color',)),
    'border-top-color': (['transparent'], ('color',)), 'border-right-color': (['transparent'], ('color',)),
    'border-bottom-color': (['transparent'], ('color',)), 'border-left-color': (['transparent'], ('color',)),
    'min-width': ([], ('length', 'percentage')), 'min-height': ([], ('length', 'percentage')),
    'max-width': (['none'], ('length', 'percentage')), 'max-height': (['none'], ('length', 'percentage')),
    'outline-color': (['invert'], ('color',)), 'background-image': (['none'], ('uri',)), 'list-style-image': (['none'], ('uri',)),
})
# (value text, classes it belongs to)
VALUES = [
    ('1px', {'length'}), ('0', {'length', 'number', 'integer'}), ('2.5em', {'length'}), ('10pt', {'length'}), ('0.5cm', {'length'}),
    ('10%', {'percentage'}), ('0.5%', {'percentage'}), ('1.5', {'number'}), ('3', {'number', 'integer'}), ('12', {'number', 'integer'}),
    ('400', {'number', 'integer', 'weight'}), ('900', {'number', 'integer', 'weight'}), ('450', {'number', 'integer'}),
    ('red', {'color'}), ('#fff', {'color'}), ('#a1b2c3', {'color'}), ('rgb(1, 2, 3)', {'color'}), ('rgb(10%, 20%, 30%)', {'color'}),
    ('url(x.png)', {'uri'}), ('url("a b.png")', {'uri'}), ('"x"', {'string'}), ('1px 2px', {'two'}),
    ('1', {'number', 'integer'}), ('1deg', {'angle'}), ('1s', {'time'}), ('px', {'ident'}), ('1 px', {'two'}),
    # near misses outside ASCII: never a keyword, number or unit
    ('\u0663', {'nonascii'}), ('\uff11', {'nonascii'}), ('\u0661\u0662px', {'nonascii'}), ('1\u00a0px', {'nonascii'}), ('1p\u212a', {'nonascii'}),
    # numbers that only look integral after rounding to six decimals keep their class
    ('1.0000001', {'number'}), ('2.9999999', {'number'}), ('0.0000001px', {'length'}),
]
NEAR = {'k': '\u212a', 's': '\u017f', 'K': '\u212a', 'S': '\u017f'}


def near_miss(word):
    for i, ch in enumerate(word):
        if ch in NEAR:
            return word[:i] + NEAR[ch] + word[i + 1:]
    return None
ALL_KEYWORDS = sorted({k for ks, _ in SPEC.values() for k in ks} | {'inherit', 'nonsense', 'auto', 'none', 'normal'})


def ref_valid(name, text, classes):
    kws, types = SPEC[name]
    if text == 'inherit':
        return True
    if classes is None:  # keyword
        return text in kws
    return bool(set(types) & classes)


def profiles_defining(name):
    return [p for p, props in PR.properties.items() if name in props and p != cssutils.profile.CSS3_FONT_FACE]


@st.composite
def pair(draw):
    known = sorted(cssutils.profile.knownNames)
    name = draw(st.one_of(st.sampled_from(sorted(SPEC)), st.sampled_from(sorted(SPEC)), st.sampled_from(known),
                          st.sampled_from(['x-unknown', 'colour', 'margin-center', 'font-colour'])))
    if draw(st.booleans()) and name in SPEC and SPEC[name][0]:
        value, classes = draw(st.sampled_from(SPEC[name][0])), None
    elif draw(st.integers(0, 2)) == 0:
        value, classes = draw(st.sampled_from(ALL_KEYWORDS)), None
        if draw(st.integers(0, 5)) == 0 and near_miss(value):
            # Kelvin sign for k, long s for s: equal under Unicode case folding only
            value, classes = near_miss(value), ['nonascii']
    else:
        value, classes = draw(st.sampled_from(VALUES))
    return {'name': name, 'value': value, 'classes': sorted(classes) if classes is not None else None,
            'seeds': draw(st.lists(st.integers(1, 2 ** 30), min_size=3, max_size=3)), 'important': draw(st.booleans())}


def spell(value, seed):
    """another spelling of the same value: case of keywords / units / function names, white space, comments, numbers, hash case"""
    sp = A.Spell(seed)
    toks = [t for t in cssutils.tokenize2.Tokenizer().tokenize(value)]
    out = []
    depth = 0
    for typ, val, _, _ in toks:
        if typ == 'S':
            out.append(sp.pick([' ', '  ', '\n', ' /*c*/ ', '\t']))
            continue
        if typ == 'IDENT':
            val = A.mixcase(val, sp)
        elif typ == 'DIMENSION':
            num = val.rstrip('abcdefghijklmnopqrstuvwxyzABCDEFGHIJKLMNOPQRSTUVWXYZ')
            unit = val[len(num):]
            val = respell_num(num, sp) + A.mixcase(unit, sp)
        elif typ == 'PERCENTAGE':
            val = respell_num(val[:-1], sp) + '%'
        elif typ == 'NUMBER':
            val = respell_num(val, sp)
        elif typ == 'FUNCTION':
            val = A.mixcase(val[:-1], sp) + '(' + sp.pick(['', ' ', '\n'])
            depth += 1
        elif typ == 'HASH':
            val = sp.pick([val, val.upper(), val.lower()])
        elif typ == 'URI':
            val = sp.pick(['url(', 'URL(', 'Url(']) + val[4:]
        elif typ == 'CHAR' and val == ')':
            depth -= 1
        elif typ == 'CHAR' and val == ',':
            val = sp.pick([',', ' ,', ', ', ' , '])
        out.append(val)
    return sp.pick(['', ' ', '\n']) + ''.join(out) + sp.pick(['', ' ', ' /*t*/'])


def respell_num(num, sp):
    if '.' in num:
        a, b = num.split('.')
        k = sp.pick([0, 1, 2])
        if k == 1 and a == '0':
            return '.' + b
        if k == 2:
            return a + '.' + b + '0'
        return num
    return num


PRIO_SPELLINGS = [(' !important', 'important'), (' !IMPORTANT', 'IMPORTANT'), ('! Important', '!important'), (' !/*c*/ important', 'Important'),
                  (' !imp\\ortant', '!IMPORTANT')]


def verdicts(name, value, prio, fontface=False, prio_spelling=0):
    """verdict through every origin; returns dict origin -> bool"""
    out = {}
    prio_text, prio_api = PRIO_SPELLINGS[prio_spelling]
    decl = f'{name}: {value}{prio_text if prio else ""}'
    wrap = ('@font-face { %s }' if fontface else 'a { %s }')
    kind = 'FONT_FACE_RULE' if fontface else 'STYLE_RULE'

    def rule_of(sheet):
        return next((r for r in sheet.cssRules if r.typeString == kind), None)

    def get(style):
        p = style.getProperty(name)
        return None if p is None else bool(p.valid)

    with lib('origin:sheet'):
        sheet = cssutils.parseString(wrap % decl)
        r = rule_of(sheet)
        out['sheet'] = None if r is None else get(r.style)
        if r is not None:
            out['sheet:novalidate'] = get(rule_of(cssutils.parseString(wrap % decl, validate=False)).style)
            out['parser:novalidate'] = get(rule_of(cssutils.CSSParser(validate=False).parseString(wrap % decl)).style)
            text = sheet.cssText
            r2 = rule_of(cssutils.parseString(text))
            out['roundtrip'] = None if r2 is None else get(r2.style)
    if not fontface:
        with lib('origin:parseStyle'):
            out['parseStyle'] = get(cssutils.parseStyle(decl))
        with lib('origin:Property'):
            try:
                out['Property()'] = bool(Property(name, value, prio_api if prio else '').valid)
            except Exception:  # noqa: BLE001  (raising mode is off: should not happen)
                raise
        with lib('origin:setProperty'):
            s = CSSStyleDeclaration()
            s.setProperty(name, value, prio_api if prio else '')
            out['setProperty'] = get(s)
            s = CSSStyleDeclaration()
            s[name] = (value, prio_api if prio else '')
            out['item'] = get(s)
            s = CSSStyleDeclaration()
            s.setProperty(Property(name, value, prio_api if prio else ''))
            out['setProperty(Property)'] = get(s)
    else:
        with lib('origin:fontface-dom'):
            base = cssutils.parseString('@font-face { font-family: "F"; src: url(f.woff) }')
            r = rule_of(base)
            r.style.setProperty(name, value, prio_api if prio else '')
            out['setProperty'] = get(r.style)
            base = cssutils.parseString('@font-face { font-family: "F"; src: url(f.woff) }')
            r = rule_of(base)
            r.style.setProperty(Property(name, value, prio_api if prio else ''))
            out['setProperty(Property)'] = get(r.style)
            base = cssutils.parseString('@font-face { font-family: "F"; src: url(f.woff) }')
            r = rule_of(base)
            donor = cssutils.parseString('a { %s }' % decl)
            dp = donor.cssRules[0].style.getProperty(name) if donor.cssRules.length else None
            if dp is not None:
                r.style.setProperty(dp)
                out['setProperty(Property from another block)'] = get(r.style)
    return out


def check_verdict(case, ctx):
    name, value = case['name'], case['value']
    saved = cssutils.log.raiseExceptions
    cssutils.log.raiseExceptions = False
    try:
        canonical = verdicts(name, value, case['important'])
        present = {k: v for k, v in canonical.items() if v is not None}
        if not present:
            ctx.event('value-not-parseable')
            ctx.case([name, value], False)
            return
        if len(set(present.values())) > 1 or len(present) != len(canonical):
            raise Violation('verdict:depends-on-origin', f'{name}: {value}: {canonical}')
        verdict = next(iter(present.values()))
        with lib('registry'):
            pv = cssutils.css.PropertyValue(value).value if name else value
            reg = bool(cssutils.profile.validate(name, pv))
            regp = bool(cssutils.profile.validateWithProfile(name, pv)[0])
        if reg != verdict or regp != verdict:
            raise Violation('verdict:registry-differs-from-property', f'{name}: {value}: property {verdict}, validate {reg}, validateWithProfile {regp}')
        # spellings
        for seed in case['seeds']:
            v2 = spell(value, seed)
            got = verdicts(name, v2, case['important'])
            bad = {k: v for k, v in got.items() if v != verdict}
            if bad:
                raise Violation('verdict:depends-on-spelling', f'{name}: {value!r} is {verdict}, but {v2!r}: {bad}')
        # the priority may be written in any case, with white space, a comment or an escape
        if case['important']:
            for k in range(1, len(PRIO_SPELLINGS)):
                got = verdicts(name, value, True, prio_spelling=k)
                bad = {o: v for o, v in got.items() if v != verdict}
                if bad:
                    raise Violation('verdict:depends-on-priority-spelling', f'{name}: {value!r} is {verdict}, but with {PRIO_SPELLINGS[k]}: {bad}')
        # serializer preferences are no input of the verdict (the value handed to validation is a serialisation)
        for setup in ('omitLeadingZero', 'useMinified', 'defaultPropertyPriority', 'minimizeColorHash'):
            try:
                with lib('prefs'):
                    if setup == 'useMinified':
                        cssutils.ser.prefs.useMinified()
                    elif setup == 'omitLeadingZero':
                        cssutils.ser.prefs.omitLeadingZero = True
                    else:
                        setattr(cssutils.ser.prefs, setup, False)
                got = verdicts(name, value, case['important'])
            finally:
                cssutils.ser.prefs.useDefaults()
            bad = {o: v for o, v in got.items() if v != verdict}
            if bad:
                raise Violation('verdict:depends-on-serializer-preferences', f'{name}: {value!r} is {verdict}, but under {setup}: {bad}')
        # font-face context: consistent across origins
        ff = verdicts(name, value, case['important'], fontface=True)
        pff = {k: v for k, v in ff.items() if v is not None}
        if len(set(pff.values())) > 1:
            raise Violation('verdict:font-face-context-depends-on-origin', f'@font-face {name}: {value}: {ff}')
        # a name that only looks like a known one after Unicode case folding is unknown (KELVIN SIGN for k, LONG S for s)
        for a, b in (('k', '\u212a'), ('s', '\u017f'), ('K', '\u212a')):
            if a in name:
                odd = name.replace(a, b, 1)
                got = {o: v for o, v in verdicts(odd, value, False).items() if v}
                if got:
                    raise Violation('verdict:unknown-name-valid', f'{odd!r}: {value} is reported valid: {got}')
                break
        # unknown names
        if name not in cssutils.profile.knownNames and verdict:
            raise Violation('verdict:unknown-name-valid', f'{name}: {value}')
        # reference
        if name in SPEC:
            classes = set(case['classes']) if case['classes'] is not None else None
            exp = ref_valid(name, value, classes)
            if exp and not verdict:
                raise Violation('reference:css21-valid-reported-invalid', f'{name}: {value}')
            css3_colour = 'color' in SPEC[name][1] and value.lower() in ('transparent', 'currentcolor')
            if not exp and verdict and css3_colour:
                # the registered CSS3 Color profile redefines the <color> macro for every profile: not judged by the 2.1 grammar
                ctx.event('reference:css3-colour-keyword-not-judged')
            elif not exp and verdict and len(profiles_defining(name)) == 1:
                with lib('serialise'):
                    written = cssutils.css.PropertyValue(value).cssText
                wclasses = set(classes or ())
                if re.fullmatch(r'[-+]?\d+', written):
                    wclasses |= {'integer', 'number'} | ({'length'} if written.strip('+-0') == '' else set())
                if written != value and classes is not None and ref_valid(name, written, wclasses):
                    # the listed finding F13-8: the value is judged as it is WRITTEN (2.9999999 is written 3, 0px is written 0)
                    raise Violation('expect:serialised-value-judged', f'{name}: {value} is reported valid because it is written {written!r}')
                raise Violation('reference:css21-invalid-reported-valid', f'{name}: {value}')
            ctx.event('reference:' + ('valid' if exp else 'invalid'))
        ctx.event('verdict:' + str(verdict))
        ctx.case([name, value], name in SPEC or ' ' in value.strip(), {'name': name, 'value': value, 'valid': verdict, 'spelling': spell(value, case['seeds'][0])})
    finally:
        cssutils.log.raiseExceptions = saved


# --------------------------------------------------------------------------- conjunction and annotation-only

block_strategy = st.fixed_dictionaries({
    'decls': st.lists(st.tuples(st.sampled_from(sorted(SPEC)[:12] + sorted(SPEC) + ['x-unknown']), st.sampled_from([v for v, _ in VALUES] + ALL_KEYWORDS)),
                      min_size=1, max_size=4),
    'rules': st.integers(1, 3),
    'seed': st.integers(0, 2 ** 30),
    'extra': st.lists(st.sampled_from(range(8)), max_size=2),
    'where': st.sampled_from(['style', 'style', 'media', 'page', 'margin', 'nested-media']),
})
EXTRA_RULES = ['@font-face { font-family: F; src: url(x) }', '@font-face { font-family: F; src: url(x); font-style: sideways }',
               '@font-face { font-family: F }', '@font-face { font-family: F; src: url(x); font-weight: bolder }',
               '@page { margin: 1cm }', '@page { margin: red }', '@page :first { @top-left { color: 1px } }', '/* c */ @foo bar;']


def check_block(case, ctx):
    decls = '; '.join(f'{n}: {v}' for n, v in case['decls'])
    where = case.get('where', 'style')
    first = decls if where in ('style', 'media') else 'top: 0'
    text = ' '.join(f'r{i} {{ {first if i == 0 else "top: 0"} }}' for i in range(case['rules']))
    text += {'style': ' @media print { m { top: 0 } }', 'media': ' @media print { m { %s } }' % decls, 'page': ' @page { %s }' % decls,
             'margin': ' @page { @top-left { %s } }' % decls, 'nested-media': ' @media print { @media tv { m { %s } } }' % decls}[where]
    text += ' ' + ' '.join(EXTRA_RULES[i] for i in case.get('extra', []))
    saved = cssutils.log.raiseExceptions
    cssutils.log.raiseExceptions = False
    try:
        with lib('parse'):
            on = cssutils.parseString(text, validate=True)
            off = cssutils.parseString(text, validate=False)
            if on.cssText != off.cssText:
                raise Violation('annotate:validate-changes-serialisation', f'{text!r}: {on.cssText!r} vs {off.cssText!r}')
            for a, b in zip(on.cssRules, off.cssRules):
                if a.type != b.type or a.cssText != b.cssText:
                    raise Violation('annotate:validate-changes-dom', f'{text!r}')
            for sheet in (on, off):
                rules = [r for r in sheet.cssRules if r.type == r.STYLE_RULE]
                for r in rules:
                    props = r.style.getProperties(all=True)
                    if r.style.valid != all(p.valid for p in props):
                        raise Violation('conjunction:style-valid', f'{r.cssText!r}: style.valid {r.style.valid}, properties {[p.valid for p in props]}')
                    if r.valid != r.style.valid:
                        raise Violation('conjunction:rule-valid', f'{r.cssText!r}')
                if sheet.valid != all(r.valid for r in sheet.cssRules if hasattr(r, 'valid')):
                    raise Violation('conjunction:sheet-valid', f'{text!r}: {sheet.valid}')
                # ... and iff all its declarations are, wherever they are nested (@font-face: in its own context)
                every, ff_ok = [], True

                def collect(rules):
                    nonlocal ff_ok
                    for r in rules:
                        if hasattr(r, 'style'):
                            ps = r.style.getProperties(all=True)
                            every.extend(ps)
                            if r.type == r.FONT_FACE_RULE:
                                names = {p.name for p in ps}
                                if not {'font-family', 'src'} <= names:
                                    ff_ok = False
                                if r.valid != (all(p.valid for p in ps) and {'font-family', 'src'} <= names):
                                    raise Violation('conjunction:font-face-valid', f'{r.cssText!r}: {r.valid}')
                        if hasattr(r, 'cssRules') and r.type != r.IMPORT_RULE:
                            collect(r.cssRules)

                collect(sheet.cssRules)
                exp = all(p.valid for p in every) and ff_ok
                if sheet.valid != exp:
                    raise Violation('conjunction:sheet-valid-nested:' + where, f'{text!r}: sheet.valid {sheet.valid}, declarations {[(p.name, p.valid) for p in every if not p.valid]}')
            v_on = [[p.valid for p in r.style.getProperties(all=True)] for r in on.cssRules if r.type == r.STYLE_RULE]
            v_off = [[p.valid for p in r.style.getProperties(all=True)] for r in off.cssRules if r.type == r.STYLE_RULE]
            if v_on != v_off:
                raise Violation('verdict:depends-on-validation-flag', f'{text!r}: {v_on} vs {v_off}')
    finally:
        cssutils.log.raiseExceptions = saved
    ctx.case(text, len(case['decls']) >= 2, {'text': text})


# --------------------------------------------------------------------------- listed findings


def literal_cases(tier):
    yield {'tag': 'system-colour', 'name': 'color', 'a': 'ButtonFace', 'b': 'red'}
    yield {'tag': 'plus-sign', 'name': 'margin-top', 'a': '+1px', 'b': '1px'}
    yield {'tag': 'comment-in-function', 'name': 'content', 'a': 'counter(/*c*/a)', 'b': 'counter(a)'}
    yield {'tag': 'comment-in-function', 'name': 'color', 'a': 'rgb(1, /*c*/ 2, 3)', 'b': 'rgb(1, 2, 3)'}
    yield {'tag': 'upper-case-colour-function', 'name': 'color', 'a': 'RGB(1, 2, 3)', 'b': 'rgb(1, 2, 3)'}


def check_literal(case, ctx):
    ctx.case([case['name'], case['a']], True, case)
    saved = cssutils.log.raiseExceptions
    cssutils.log.raiseExceptions = False
    try:
        with lib('literal'):
            pa = cssutils.parseStyle('%s: %s' % (case['name'], case['a'])).getProperty(case['name'])
            pb = cssutils.parseStyle('%s: %s' % (case['name'], case['b'])).getProperty(case['name'])
        va = None if pa is None else pa.valid
        vb = None if pb is None else pb.valid
        if va != vb:
            raise Violation('literal:' + case['tag'], f'{case["name"]}: {case["a"]!r} -> {va}, {case["b"]!r} -> {vb}')
    finally:
        cssutils.log.raiseExceptions = saved


SUBS = [
    Sub('verdict', check_verdict, strategy=pair(), quick=5000, thorough=150000, shards_quick=8, budget_quick=90),
    Sub('block', check_block, strategy=block_strategy, quick=3000, thorough=80000, shards_quick=4),
    Sub('literal', check_literal, enumerate=literal_cases, shards_quick=1, shards_thorough=1),
]


# --------------------------------------------------------------------------- the active default profiles are part of the input, their history is not

DEFAULTS = [None, 'CSS Level 2.1', 'CSS Color Module Level 3', ['CSS Level 2.1', 'CSS Box Module Level 3'], 'CSS Text Level 3',
            ['CSS Backgrounds and Borders Module Level 3']]
PROFILE_SENSITIVE = [('color', 'rgba(1, 2, 3, 0.5)'), ('color', 'red'), ('opacity', '.5'), ('box-shadow', 'none'), ('text-shadow', 'none'),
                     ('overflow', 'hidden scroll'), ('overflow-x', 'hidden'), ('border-radius', '2px'), ('color', 'hsl(1, 2%, 3%)'),
                     ('margin-top', '1px'), ('resize', 'both'), ('font-stretch', 'condensed'), ('x-unknown', 'a')]
defaults_strategy = st.fixed_dictionaries({
    'pairs': st.lists(st.sampled_from(PROFILE_SENSITIVE), min_size=1, max_size=3),
    'settings': st.lists(st.integers(0, len(DEFAULTS) - 1), min_size=2, max_size=4),
})


def check_defaults(case, ctx):
    saved = cssutils.log.raiseExceptions
    cssutils.log.raiseExceptions = False
    old = cssutils.profile._defaultProfiles
    try:
        for si in case['settings']:
            d = DEFAULTS[si]
            with lib('defaultProfiles'):
                cssutils.profile.defaultProfiles = d
                fresh = PR.Profiles(log=cssutils.log)
                fresh.defaultProfiles = d
            for name, value in case['pairs']:
                with lib('validate'):
                    p = Property(name, value)
                    got = bool(p.valid)
                    r = fresh.validateWithProfile(name, p.value)
                    exp = bool(r[0] and r[1])
                    got_reg = cssutils.profile.validateWithProfile(name, p.value)
                if got != exp or tuple(got_reg) != tuple(r):
                    raise Violation('verdict:depends-on-earlier-default-profiles', f'{name}: {value} under defaultProfiles={d!r} after settings '
                                    f'{[DEFAULTS[i] for i in case["settings"]]}: property {got}, registry {got_reg}, fresh registry {r}')
    finally:
        cssutils.profile.defaultProfiles = old
        cssutils.log.raiseExceptions = saved
    ctx.case(case, len(set(case['settings'])) >= 2, {'pairs': case['pairs'], 'settings': [DEFAULTS[i] for i in case['settings']]})


SUBS.append(Sub('defaults', check_defaults, strategy=defaults_strategy, quick=400, thorough=20000, shards_quick=4))


# --------------------------------------------------------------------------- the verdict judges the serialised value (listed finding)


def expect_cases(tier):
    for name, value in [('z-index', '0px'), ('orphans', '0cm'), ('pitch-range', '0em'), ('z-index', '1.0'), ('widows', '2.0'), ('font-weight', '0400.0')]:
        yield {'name': name, 'value': value, 'expected': False}
    for name, value in [('z-index', '0'), ('z-index', '1'), ('width', '0px'), ('line-height', '1.0')]:
        yield {'name': name, 'value': value, 'expected': True}


def check_expect(case, ctx):
    saved = cssutils.log.raiseExceptions
    cssutils.log.raiseExceptions = False
    try:
        with lib('parseStyle'):
            p = cssutils.parseStyle('%s: %s' % (case['name'], case['value'])).getProperty(case['name'])
        got = None if p is None else p.valid
        ctx.case([case['name'], case['value']], True, case)
        if got != case['expected']:
            raise Violation('expect:serialised-value-judged', f'{case["name"]}: {case["value"]} reported {got}, CSS 2.1 says {case["expected"]} '
                            f'(the verdict is computed from the serialised value {p.value!r})')
    finally:
        cssutils.log.raiseExceptions = saved


SUBS.append(Sub('expect', check_expect, enumerate=expect_cases, shards_quick=1, shards_thorough=1))


SUBS.append(reported_sub('C13'))
