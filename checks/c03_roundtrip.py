"""C03 — serialise -> parse is lossless; serialisation is a fixpoint."""

import glob
import os
import xml.dom

from hypothesis import strategies as st

import cssutils
from cssutils.css import CSSStyleDeclaration, PropertyValue, Selector
from cssutils.stylesheets import MediaList
from vlib import cssmodel as A
from vlib import project as P
from vlib import selmodel as S
from vlib.runner import REPO, Sub, Violation, lib

PROPERTY = 'C03'
RULE = (
    'sheets: DOMs obtained by parsing abstract stylesheets (generator of C02) in a random spelling, optionally followed by '
    '0..5 accepted DOM edits (setProperty, removeProperty, insertRule, deleteRule, selectorText=, appendMedium, '
    'style.cssText=, add comment); repo: every file under /repo/sheets. Oracles: with the lossless preferences '
    '(keepEmptyRules, no variable resolution) projection(parse(serialise(d))) == projection(d) incl. comments and '
    'serialise(parse(serialise(d))) == serialise(d); under default preferences the serialisation is a fixpoint; node '
    'level: every rule, declaration block, selector, media list and property value whose text is set on a fresh object '
    'gives back the same text and projection. content: strings, URLs and comments over printable ASCII, both quotes, '
    'backslash-free punctuation, line breaks and non-ASCII written literally or as hex escapes, under target encodings '
    'ascii/latin-1/utf-8. Non-trivial: the DOM holds a string/URL/identifier with a character outside [A-Za-z0-9_-], a '
    'comment, came from an edit history or is a repository sheet; distinct by serialisation. hunt: literal sheets from the defect hunt '
    '(attribute namespace equal to the default one, near-integral numbers, escaped quote of the other kind, unknown at-rules with '
    'nested selectors and id hashes, an escape ending a comment, a comment before all in @import media), same oracles plus token '
    'adjacency inside unknown rules.'
)
ASSUMPTIONS = [
    'identifiers of the sheet generator consist of characters that need no escaping on output; names that need escaping (F03-1, repaired) are swept by the ident sub over every position a name can stand in',
    'string/URL content has no backslash character (listed finding F18-2)',
    'comment content is generated without backslash-hex sequences (cssutils decodes them; neither behaviour is asserted)',
    'repository sheets are parsed with a fetcher that serves empty sheets for every @import',
]

LOSSLESS = {'keepEmptyRules': True, 'resolveVariables': False, 'keepUnknownAtRules': True, 'keepComments': True,
            'keepAllProperties': True, 'keepUsedNamespaceRulesOnly': False}


class Prefs:
    def __init__(self, **kw):
        self.kw = kw

    def __enter__(self):
        self.saved = {k: getattr(cssutils.ser.prefs, k) for k in self.kw}
        for k, v in self.kw.items():
            setattr(cssutils.ser.prefs, k, v)

    def __exit__(self, *a):
        for k, v in self.saved.items():
            setattr(cssutils.ser.prefs, k, v)


def fetcher(url):
    return (None, '')


def parser():
    return cssutils.CSSParser(fetcher=fetcher)


def drop_empty(proj):
    """@font-face, @page and margin boxes without content are never written (whatever keepEmptyRules says);
    they denote nothing, so both sides are compared without them"""
    out = []
    for r in proj:
        if r[0] == 'fontface' and not r[1]:
            continue
        if r[0] == 'page':
            margins = tuple(m for m in r[4] if not (m[0] == 'margin' and not m[2]))
            if not r[3] and not margins:
                continue
            r = r[:4] + (margins,)
        if r[0] == 'media':
            r = r[:2] + (drop_empty(r[2]),)
        out.append(r)
    return tuple(out)


def roundtrip_sheet(sheet, what):
    """the two sheet-level oracles; returns the lossless serialisation"""
    with Prefs(**LOSSLESS):
        with lib('serialise'):
            t1 = sheet.cssText
            p1 = drop_empty(P.p_sheet(sheet, resolved=True))
        with lib('reparse'):
            s2 = parser().parseString(t1, href=sheet.href)
            p2 = drop_empty(P.p_sheet(s2, resolved=True))
            t2 = s2.cssText
        if p1 != p2:
            raise Violation('sheet:reparse-differs:' + diff_kind(p1, p2), f'{what}: {t1[:300]!r}: {P.first_diff(p1, p2)}')
        if t1 != t2:
            raise Violation('sheet:not-a-fixpoint', f'{what}: {t1[:200]!r} -> {t2[:200]!r}')
    with lib('serialise-default'):
        d1 = sheet.cssText
        d2 = parser().parseString(d1, href=sheet.href).cssText
    if d1 != d2:
        raise Violation('sheet:default-not-a-fixpoint', f'{what}: {d1[:200]!r} -> {d2[:200]!r}')
    return t1


def diff_kind(a, b):
    if len(a) != len(b):
        return 'rule-count'
    for x, y in zip(a, b):
        if x != y:
            return x[0] if x[0] == y[0] else 'rule-kind'
    return 'other'


def nsdict(sheet):
    try:
        return dict(sheet.namespaces.items())
    except Exception:  # noqa: BLE001
        return {}


def walk_rules(rules):
    for r in rules:
        yield r
        if r.type in (r.MEDIA_RULE,):
            yield from walk_rules(r.cssRules)


def node_level(sheet, what):
    ns = nsdict(sheet)
    saved = cssutils.log.raiseExceptions
    cssutils.log.raiseExceptions = True
    try:
        with Prefs(**LOSSLESS):
            for r in walk_rules(sheet.cssRules):
                kind = r.typeString
                if r.type == r.IMPORT_RULE:
                    continue  # a fresh import rule has no sheet to resolve against; covered at sheet level
                text = r.cssText
                if not text:
                    continue
                try:
                    with lib('node:' + kind, expect=(xml.dom.DOMException,)):
                        r2 = type(r)()
                        if r.type in (r.STYLE_RULE, r.MEDIA_RULE):
                            r2.cssText = (text, ns)
                        else:
                            r2.cssText = text
                        t2 = r2.cssText
                        pa = P.p_rule(r, specificity=False)
                        pb = P.p_rule(r2, specificity=False)
                except xml.dom.DOMException as e:
                    raise Violation('node:own-text-rejected:' + kind, f'{what}: {text[:200]!r}: {e}')
                if t2 != text:
                    raise Violation('node:text-changes:' + kind, f'{what}: {text[:200]!r} -> {t2[:200]!r}')
                if r.type == r.STYLE_RULE and not ns and pa != pb:
                    raise Violation('node:projection-changes:' + kind, f'{what}: {text[:200]!r}: {P.first_diff(pa, pb)}')
                if r.type == r.STYLE_RULE:
                    _style_nodes(r, ns, what)
                if r.type == r.MEDIA_RULE:
                    _media_node(r.media, what)
    finally:
        cssutils.log.raiseExceptions = saved


def _media_node(ml, what):
    text = ml.mediaText
    try:
        with lib('node:medialist', expect=(xml.dom.DOMException,)):
            m2 = MediaList(text)
            t2 = m2.mediaText
    except xml.dom.DOMException as e:
        raise Violation('node:own-text-rejected:medialist', f'{what}: {text!r}: {e}')
    if t2 != text:
        raise Violation('node:text-changes:medialist', f'{what}: {text!r} -> {t2!r}')


def _style_nodes(r, ns, what):
    for sel in r.selectorList:
        text = sel.selectorText
        try:
            with lib('node:selector', expect=(xml.dom.DOMException,)):
                s2 = Selector((text, ns))
                t2, sp2 = s2.selectorText, s2.specificity
        except xml.dom.DOMException as e:
            raise Violation('node:own-text-rejected:selector', f'{what}: {text!r}: {e}')
        if t2 != text or tuple(sp2) != tuple(sel.specificity):
            raise Violation('node:text-changes:selector', f'{what}: {text!r} -> {t2!r}')
    text = r.style.cssText
    try:
        with lib('node:style', expect=(xml.dom.DOMException,)):
            st2 = CSSStyleDeclaration(cssText=text)
            t2 = st2.cssText
            pa, pb = P.p_block(r.style), P.p_block(st2)
    except xml.dom.DOMException as e:
        raise Violation('node:own-text-rejected:style', f'{what}: {text!r}: {e}')
    if t2 != text or pa != pb:
        raise Violation('node:text-changes:style', f'{what}: {text[:200]!r} -> {t2[:200]!r}')
    for prop in r.style.getProperties(all=True):
        text = prop.propertyValue.cssText
        try:
            with lib('node:value', expect=(xml.dom.DOMException,)):
                pv = PropertyValue(text)
                t2 = pv.cssText
        except xml.dom.DOMException as e:
            raise Violation('node:own-text-rejected:value', f'{what}: {text!r}: {e}')
        if t2 != text:
            raise Violation('node:text-changes:value', f'{what}: {text!r} -> {t2!r}')


# --------------------------------------------------------------------------- generated sheets (+ edits)

EDIT_VALUES = ['red', '1px 2px', '"a;b"', 'url(x.png)', 'rgb(1,2,3)', "'q\"q'", 'f(a, b)']
EDIT_RULES = ['x { top: 0 }', '/* new */', '@media tv { y { left: 0 } }', '@page :left { margin: 1cm }',
              'a > b, c[d="e f"] { color: red }', '@x-unknown foo { bar }', '@font-face { font-family: "F"; src: url(f.woff) }']
EDIT_SELECTORS = ['a', 'a b', 'a > b', '.c, #d', 'a[href="x y"]', 'li:nth-child(2n+1)::before', ':not(.x)']

edit = st.one_of(
    st.tuples(st.just('setProperty'), st.integers(0, 5), st.sampled_from(A.PROPS), st.sampled_from(EDIT_VALUES), st.booleans()),
    st.tuples(st.just('removeProperty'), st.integers(0, 5), st.sampled_from(A.PROPS)),
    st.tuples(st.just('insertRule'), st.sampled_from(EDIT_RULES), st.integers(0, 6)),
    st.tuples(st.just('deleteRule'), st.integers(0, 6)),
    st.tuples(st.just('selectorText'), st.integers(0, 5), st.sampled_from(EDIT_SELECTORS)),
    st.tuples(st.just('appendMedium'), st.integers(0, 5), st.sampled_from(['tv', 'print', 'screen and (color)'])),
    st.tuples(st.just('styleText'), st.integers(0, 5), st.sampled_from(['', 'top: 0', 'a: b; /* c */ a: c !important'])),
    st.tuples(st.just('importMediaText'), st.integers(0, 3), st.sampled_from(['print', 'tv, screen and (color)', 'all', 'not print'])),
    st.tuples(st.just('importMedia'), st.integers(0, 3), st.sampled_from(['print', 'tv, screen and (color)', 'all'])),
    st.tuples(st.just('importAppendMedium'), st.integers(0, 3), st.sampled_from(['tv', 'print and (color)'])),
    st.tuples(st.just('importName'), st.integers(0, 3), st.sampled_from(['n', 'x y', None, 'a"b'])),
    st.tuples(st.just('importHref'), st.integers(0, 3), st.sampled_from(['other.css', 'sub/o.css', 'http://example.org/x.css?a=1'])),
    st.tuples(st.just('mediaText'), st.integers(0, 3), st.sampled_from(['print', 'tv, screen and (color)', 'all'])),
)
sheets_strategy = st.fixed_dictionaries({
    'model': A.sheet(max_body=3),
    'seed': st.integers(0, 2 ** 30),
    'edits': st.lists(edit, max_size=5),
}).map(lambda d: {**d, 'edits': [list(e) for e in d['edits']]})


def apply_edit(sheet, e, ctx):
    """returns True if the edit was accepted"""
    style_rules = [r for r in walk_rules(sheet.cssRules) if r.type == r.STYLE_RULE]
    media_rules = [r for r in walk_rules(sheet.cssRules) if r.type == r.MEDIA_RULE]
    import_rules = [r for r in sheet.cssRules if r.type == r.IMPORT_RULE]
    saved = cssutils.log.raiseExceptions
    cssutils.log.raiseExceptions = True
    try:
        with lib('edit:' + e[0], expect=(xml.dom.DOMException,)):
            if e[0] == 'setProperty' and style_rules:
                style_rules[e[1] % len(style_rules)].style.setProperty(e[2], e[3], 'important' if e[4] else '')
            elif e[0] == 'removeProperty' and style_rules:
                style_rules[e[1] % len(style_rules)].style.removeProperty(e[2])
            elif e[0] == 'insertRule':
                sheet.insertRule(e[1], min(e[2], sheet.cssRules.length))
            elif e[0] == 'deleteRule' and sheet.cssRules.length:
                sheet.deleteRule(e[1] % sheet.cssRules.length)
            elif e[0] == 'selectorText' and style_rules:
                style_rules[e[1] % len(style_rules)].selectorText = e[2]
            elif e[0] == 'appendMedium' and media_rules:
                media_rules[e[1] % len(media_rules)].media.appendMedium(e[2])
            elif e[0] == 'styleText' and style_rules:
                style_rules[e[1] % len(style_rules)].style.cssText = e[2]
            elif e[0].startswith('import') and import_rules:
                r = import_rules[e[1] % len(import_rules)]
                if e[0] == 'importMediaText':
                    r.media.mediaText = e[2]
                elif e[0] == 'importMedia':
                    r.media = e[2]
                elif e[0] == 'importAppendMedium':
                    r.media.appendMedium(e[2])
                elif e[0] == 'importName':
                    r.name = e[2]
                else:
                    r.href = e[2]
            elif e[0] == 'mediaText' and media_rules:
                media_rules[e[1] % len(media_rules)].media.mediaText = e[2]
            else:
                return False
        return True
    except xml.dom.DOMException:
        ctx.event('edit-rejected:' + e[0])
        return False
    finally:
        cssutils.log.raiseExceptions = saved


def flatten_nested_comments(stmts, nested=False):
    """multi-line comments inside blocks are re-indented by the serialiser (listed finding F03-2, probed by the
    literal sub): nested comments are generated single-line"""
    for s in stmts:
        if s['k'] == 'comment' and nested:
            s['text'] = s['text'].replace('\n', ' ')
        for key in ('block',):
            if isinstance(s.get(key), list):
                for it in s[key]:
                    if it['k'] == 'comment':
                        it['text'] = it['text'].replace('\n', ' ')
        if s['k'] == 'media':
            flatten_nested_comments(s['rules'], True)
        if s['k'] == 'page':
            for m in s['margins']:
                for it in m['block']:
                    if it['k'] == 'comment':
                        it['text'] = it['text'].replace('\n', ' ')


def check_sheets(case, ctx):
    flatten_nested_comments(case['model']['stmts'])
    text = A.render_sheet(case['model'], case['seed'])
    with lib('parse'):
        sheet = parser().parseString(text, href='http://example.com/base/sheet.css')
    n_ok = 0
    for e in case['edits']:
        if apply_edit(sheet, e, ctx):
            n_ok += 1
            ctx.event('edit:' + e[0])
    ser = roundtrip_sheet(sheet, f'source {text[:200]!r} edits {case["edits"]}')
    node_level(sheet, f'source {text[:200]!r}')
    interesting = n_ok > 0 or b'/*' in ser or any(c in ser for c in b'"\'') or any(b > 127 for b in ser)
    ctx.case(ser, interesting, {'source': text[:300], 'edits': case['edits'], 'serialised': ser.decode('utf-8', 'replace')[:300]})


# --------------------------------------------------------------------------- repository sheets


def repo_cases(tier):
    for f in sorted(glob.glob(os.path.join(REPO, 'sheets', '*.css'))):
        yield {'file': os.path.basename(f)}


def check_repo(case, ctx):
    path = os.path.join(REPO, 'sheets', case['file'])
    with lib('parseFile', expect=(UnicodeDecodeError, LookupError)):
        try:
            sheet = parser().parseFile(path)
        except (UnicodeDecodeError, LookupError):
            ctx.event('undecodable')
            cssutils.log.raiseExceptions = True
            return
    try:
        roundtrip_sheet(sheet, case['file'])
    except Violation as v:
        raise Violation(v.sig + ':repo:' + case['file'], v.msg)
    ctx.case(case['file'], True, {'file': case['file'], 'rules': sheet.cssRules.length})


# --------------------------------------------------------------------------- content over the character range

CONTENT = list('abcXYZ019 !#$%&*+,-./:;<=>?@[]^_`{|}~()"\'') + ['\t', '\n', '\r', '\f', 'é', '€', '中', '\U0001F600', '\xa0', ' ']
COMMENT_CONTENT = [c for c in CONTENT if c not in '\r\f'] + ['*', '/', '* /', '/*']


@st.composite
def content_case(draw):
    return {
        'string': ''.join(draw(st.lists(st.sampled_from(CONTENT), max_size=8))),
        'url': ''.join(draw(st.lists(st.sampled_from(CONTENT), max_size=8))),
        'comment': ''.join(draw(st.lists(st.sampled_from(COMMENT_CONTENT), max_size=8))).replace('*/', '* /'),
        'ident': draw(st.sampled_from(['a', 'é', 'x-y', '_z9', '中文', 'A1'])),
        'charset': draw(st.sampled_from([None, 'utf-8', 'ascii', 'iso-8859-1', 'utf-16'])),
        'seed': draw(st.integers(1, 2 ** 30)),
    }


def check_content(case, ctx):
    r = A.R(case['seed'])
    text = ''
    if case['charset']:
        text += '@charset "%s";\n' % case['charset']
    text += '/*' + case['comment'] + '*/\n'
    text += '.%s { content: %s; background: %s; /*%s*/ }\n' % (
        case['ident'], A.esc_string(case['string'], r), A.render_url(case['url'], r), case['comment'].replace('\n', ' '))
    text += '@import-x %s;\n' % A.esc_string(case['string'], r)
    with lib('parse'):
        sheet = parser().parseString(text)
        rules = [x for x in sheet.cssRules if x.type == x.STYLE_RULE]
    if len(rules) != 1:
        raise Violation('content:source-rule-lost', f'{text!r} -> {sheet.cssText!r}')
    with lib('observe'):
        style = rules[0].style
        sv = style.getProperty('content').propertyValue[0].value
        uv = style.getProperty('background').propertyValue[0].uri
        comments = [P.comment_text(c) for c in sheet.cssRules if c.type == c.COMMENT]
    url_expected = case['url']
    if sv != case['string']:
        raise Violation('content:string-accessor', f'{text!r}: {sv!r} vs {case["string"]!r}')
    if uv != url_expected.strip(' \t\r\n\f') and uv != url_expected:
        raise Violation('content:url-accessor', f'{text!r}: {uv!r} vs {url_expected!r}')
    if comments[:1] != [case['comment']]:
        raise Violation('content:comment-text', f'{text!r}: {comments!r} vs {case["comment"]!r}')
    ser = roundtrip_sheet(sheet, f'source {text!r}')
    # and the content itself after the round trip
    with lib('reparse'):
        s2 = parser().parseString(ser)
        st2 = [x for x in s2.cssRules if x.type == x.STYLE_RULE][0].style
        sv2 = st2.getProperty('content').propertyValue[0].value
        uv2 = st2.getProperty('background').propertyValue[0].uri
    if sv2 != sv or uv2 != uv:
        raise Violation('content:changed-by-round-trip', f'{text!r} -> {ser!r}: {sv2!r} {uv2!r}')
    try:
        ser.decode(sheet.encoding)
    except UnicodeDecodeError as e:
        raise Violation('content:serialisation-not-decodable', f'{text!r}: {e}')
    nt = any(c in case['string'] + case['url'] for c in '"\'() \n\t;{}') or bool(case['comment'])
    ctx.event('charset:' + str(case['charset']))
    ctx.case(text, nt, {'source': text, 'serialised': ser.decode(sheet.encoding, 'replace')})


# --------------------------------------------------------------------------- excluded region: identifiers that need escaping


def ident_cases(tier):
    yield {'text': 'a {\n  /* two\nlines */ top: 0 }', 'tag': 'multiline-comment'}
    for t in ['.\\31 a { top: 0 }', 'a { b: \\26 x }', '#a\\.b { top: 0 }', 'a\\ b { top: 0 }', '.a\\+b { top: 0 }']:
        yield {'text': t}
    # every place a name can stand x names holding a character (written as an escape) that cannot stand there as it is
    places = ['%s { top: 0 }', '.%s { top: 0 }', '#%s { top: 0 }', 'a[%s] { top: 0 }', 'a[b=%s] { top: 0 }', 'a:lang(%s) { top: 0 }',
              'a { %s: 0 }', 'a { b: %s }', 'a { b: c %s d }', 'a { b: f(%s) }', 'a { width: 1%s }', '@namespace %s "u"; %s|a { top: 0 }',
              '@%s x;', '@media print { .%s { top: 0 } }', '@page { b: %s }', '@font-face { font-family: %s }', 'a { b: %s !important }',
              'a > .%s + #%s ~ %s { top: 0 }', '@media screen and (scan: %s) { a { top: 0 } }']
    # (not 5c: a hex-escaped backslash becomes a bare backslash in the token value, which everything downstream reads as an escape
    # introducer - the listed finding F10-13)
    codes = [0x31, 0x26, 0x20, 0x29, 0x3b, 0x7b, 0x9, 0x1, 0x2c, 0x2e, 0x3a, 0x40, 0x22, 0x7f, 0x2a, 0x23, 0x2f, 0x28, 0x5b]
    for pi, place in enumerate(places):
        for code in codes:
            for shape in ('\\%x x', 'x\\%x y', 'x\\%x ', '\\%06x', '-\\%x x'):
                if tier == 'quick' and (pi + code + len(shape)) % 3:
                    continue
                name = shape % code
                yield {'text': place.replace('%s', name), 'tag': 'sweep'}


def check_ident(case, ctx):
    ctx.case(case['text'], True, case)
    with lib('parse'):
        sheet = parser().parseString(case['text'])
    if case.get('tag') == 'sweep' and not [r for r in sheet.cssRules]:
        ctx.event('ident-sweep:not-accepted-by-the-parser')
        return
    try:
        roundtrip_sheet(sheet, case['text'])
    except Violation as v:
        if case.get('tag') == 'multiline-comment':
            raise Violation('comment:multi-line-comment-in-block-reindented', v.msg)
        if case['text'].startswith(('@namespace \\3a', '@namespace \\00003a')):
            raise Violation('ident:escaped-colon-prefix-read-as-pseudo', v.msg)
        raise Violation('ident:needs-escape-written-raw', v.msg)


SUBS = [
    Sub('sheets', check_sheets, strategy=sheets_strategy, quick=1500, thorough=120000, shards_quick=8, budget_quick=150),
    Sub('repo', check_repo, enumerate=repo_cases, shards_quick=8, shards_thorough=16, budget_quick=200),
    Sub('content', check_content, strategy=content_case(), quick=3000, thorough=300000, shards_quick=8),
    Sub('ident', check_ident, enumerate=ident_cases, shards_quick=1, shards_thorough=1),
]


# --------------------------------------------------------------------------- literal sheets from the defect hunt (own signature each)

HUNT = [
    ('attribute-namespace-equal-to-default', '@namespace p "u"; @namespace "u"; [p|b] { x: y }'),
    ('near-integral-number', 'a { width: 0.0000001px; line-height: 1.0000001 } @media screen and (min-width: 0.0000001px) { b { top: 0 } }'),
    ('escaped-double-quote-in-single-quotes', "a { content: 'a\\\"b' } c { top: 0 }"),
    ('unknown-rule-selector-white-space', '@-moz-document url-prefix() { .a.b .c d:before { left: -22px } } e { top: 0 }'),
    ('unknown-rule-hash-shortened', '@-moz-document url-prefix() { #aabbcc { color: #ddeeff } }'),
    ('escape-ending-a-comment', '/* see \\2a/ x */ a { color: red }'),
    ('import-media-comment-before-all', '@import "x" print, /*c*/ all; a { top: 0 }'),
]


def hunt_cases(tier):
    for tag, text in HUNT:
        yield {'tag': tag, 'text': text}


def check_hunt(case, ctx):
    saved = cssutils.log.raiseExceptions
    cssutils.log.raiseExceptions = False
    try:
        with lib('parse'):
            sheet = parser().parseString(case['text'])
        ctx.case(case['text'], True, case)
        try:
            roundtrip_sheet(sheet, case['text'])
        except Violation as v:
            raise Violation('hunt:' + case['tag'], f'{v.sig}: {v.msg}')
        if case['tag'].startswith('unknown-rule'):
            # inside an unknown at-rule white space between tokens can be significant (.a.b versus .a .b): where the source has
            # none, the output must have none, and the other tokens must be the same
            def sig(text):
                out = []
                for t in cssutils.tokenize2.Tokenizer().tokenize(text):
                    if t[0] == 'S':
                        if out and out[-1] != ' ':
                            out.append(' ')
                    elif t[0] != 'COMMENT':
                        out.append((t[0], t[1]))
                return out

            def glued(seq):
                return [(a, b) for a, b in zip(seq, seq[1:]) if a != ' ' and b != ' ']

            rule = [r for r in sheet.cssRules if r.type == r.UNKNOWN_RULE][0]
            src = sig(case['text'][:case['text'].rindex('}') + 1] if case['text'].count('}') > 1 else case['text'])
            out = sig(rule.cssText)
            lost = [p for p in glued(src) if p not in glued(out) and p[0][1] not in '{};' and p[1][1] not in '{};']
            if lost or [x for x in src if x != ' '][:len([x for x in out if x != ' '])] != [x for x in out if x != ' ']:
                raise Violation('hunt:' + case['tag'], f'{case["text"]!r} is written {rule.cssText!r}: tokens written together in the source are separated or changed: {lost[:3]}')
    finally:
        cssutils.log.raiseExceptions = saved


SUBS.append(Sub('hunt', check_hunt, enumerate=hunt_cases, shards_quick=1, shards_thorough=1))


from vlib.reported import reported_sub  # noqa: E402

SUBS.append(reported_sub('C03'))
