"""C04 — syntax errors are contained: only the malformed construct is dropped."""

from hypothesis import strategies as st

import cssutils
from vlib import cssmodel as A
from vlib import project as P
from vlib.runner import Sub, Violation, lib

PROPERTY = 'C04'
RULE = (
    'inject: triples (abstract sheet from the C02 generator, injection point, balanced garbage). Declaration level: the '
    'garbage (token sequence starting with a non-identifier, identifier glued to a parenthesis, identifier without '
    'colon, name without value, value with stray ! : =, at-keyword junk, nested {} [] () blocks and strings) is inserted '
    'before/between/after the items of a declaration block of a style rule (top level or inside @media), @page or '
    '@font-face; statement level: a rule with an invalid selector and a well-formed block, an unknown at-rule, a '
    'misplaced @charset/@import/@namespace, a margin rule outside @page or stray tokens is inserted between statements '
    'at top level or inside @media. Oracle: the projection of the damaged sheet equals that of the original except for a '
    'contiguous run of remnants at the injection index. truncate: every prefix of rendered sheets / blocks; every '
    'statement or declaration that is complete before the cut must be present, unchanged and in order. Non-trivial: at '
    'least one valid item follows the injection point / the cut falls inside a construct with a complete one before it; '
    'distinct by damaged text.'
    " Garbage also comes as malformed KNOWN at-rules ('@page $ {}', '@media ;', '@font-face $ {}', '@variables $ {}', '@namespace ;', an @media rule with a refused query - anywhere, also between the @import / @namespace rules), as reserved at-keywords carrying a block, as constructs whose first token is an escaped bracket, and as unknown at-rules that end with their block and are followed by the next declaration without ';' or white space; literal sheets pin known at-rules between declarations."
)
ASSUMPTIONS = [
    'garbage is balanced in () [] {} and quotes by construction and never forms a valid construct of its level',
    'a declaration counts as complete once its terminating ; (or the closing brace of its block) lies before the cut',
    'remnants of the damaged construct (unknown at-rules, lenient forms) may stay in the DOM at the injection point only',
]

DECL_GARBAGE = ['(x) y', '[a]', '{a:b}', '1px', '#hash', '"str"', ': x', '!important', '= x', 'foo(bar): baz', 'f(x', 'color red',
                'color:', 'color: red ! x', 'color: a:b', 'color: =', 'top: 1px 2 !', '@foo bar', '@x {y:z}', '* html', 'a b c',
                '(a;b) c: d', '[x;y]', '{ a: b; c: d } e', '"a;b"', "'}'", 'x: f(;)', '-', '-- x', 'color: red;;;', '& b: c',
                'co lor: red', 'color: rgb(1,2', 'top: (1', 'u+0-7f: x', '12: 3', '$a: b', 'color: #', 'color: url(', '<!-- x: y -->',
                '$ ! color: blue', 'x ! top: 1px', '! left: 0']
STMT_GARBAGE = ['a,,b {top:0}', '1a {top:0}', 'a:::b {top:0}', ' {top:0}', 'a[[b]] {top:0}', 'a( {top:0}', '@foo bar;',
                '@foo { a { b: c } }', '@charset "utf-8";', '@import "late.css";', '@namespace q "http://q";', '@namespace p "http://other.example/p";',
                '@namespace "http://other.example/default";', '@namespace svg "http://p.example/ns";',
                '@top-left { content: "x" }', 'a;b {top:0}', '"str" {top:0}', '{}', '{ x: y }', '(a) {top:0}', '[b] {top:0}',
                'a { b: c } }', '& {top:0}', 'a > {top:0}', 'a, {top:0}', ', a {top:0}', '@media {a{top:0}}',
                '@media print and {a{top:0}}', '@page :nope: {margin:0}', '@import;', '@x;', 'a.{top:0}', '#{top:0}', 'a::{top:0}',
                '$ {}', '$ {top:0}', '1 {}']
# unbalanced / block-closing garbage is outside the statement ("brackets, braces and quotes balanced")
for bad in ('f(x', 'color: rgb(1,2', 'top: (1', 'color: url(', 'a { b: c } }'):
    if bad in DECL_GARBAGE:
        DECL_GARBAGE.remove(bad)
    if bad in STMT_GARBAGE:
        STMT_GARBAGE.remove(bad)
STMT_GARBAGE.remove('a( {top:0}')


# unknown at-rules that end with their block: the next declaration may follow at once, without ';' or white space
ENDS_WITH_BLOCK = {'@x {y:z}', '@foo bar { a { b: c } }', '@x{}', '@media print { a { top: 0 } }'}
DECL_GARBAGE.extend(sorted(ENDS_WITH_BLOCK - set(DECL_GARBAGE)))
# reserved at-keywords with a block where none belongs: the statement ends with that block (CSS 2.1 4.1.5)
STMT_GARBAGE.extend(['@import "x.css" { foo: bar }', '@import {}', '@namespace p { a: b }', '@charset { }', '@import url(x.css) print { a { top: 0 } }',
                     '@namespace {} ', '@variables;', '@page;', '@media;', '@font-face;', '@font-face x;'])


# malformed known at-rules are ignored wherever they stand (also between the @import / @namespace rules), escaped brackets are names
MALFORMED_AT = ['@page $ {}', '@media ;', '@media $ {a{}}', '@font-face $ {}', '@variables $ {}', '@namespace ;', '@media screen and (color: rgb(1,2)) { a { top: 0 } }']
STMT_GARBAGE.extend(MALFORMED_AT + ['\\28 $ {top:0}', '\\5b $ {top:0}', '\\7b $ {top:0}'])
DECL_GARBAGE.extend(['\\7b ', '\\5b $', '\\28  x', '\\7b : '])


MAY_LEAVE_DECLARATION = {'color: red;;;', 'color:', 'color: red ! x', 'top: 1px 2 !', 'color: a:b', 'color: =', 'color: #', 'x: f(;)', '$a: b', 'u+0-7f: x',
                         '12: 3', 'co lor: red', 'color red', 'foo(bar): baz'}


# rules with an invalid selector and nothing else: ignored as a whole
HEADER_SAFE = {'$ {}', '$ {top:0}', '1 {}', 'a,,b {top:0}', '1a {top:0}', 'a:::b {top:0}', ' {top:0}', 'a[[b]] {top:0}', '& {top:0}',
               'a > {top:0}', 'a, {top:0}', ', a {top:0}', 'a.{top:0}', '#{top:0}', 'a::{top:0}'}
HEADER_SAFE |= set(MALFORMED_AT) | {'\\28 $ {top:0}', '\\5b $ {top:0}', '\\7b $ {top:0}'}


def parse(text):
    with lib('parse'):
        return cssutils.CSSParser(fetcher=lambda u: (None, '')).parseString(text, href='http://example.com/s.css')


def contained(po, pd, i):
    n_after = len(po) - i
    return pd[:i] == po[:i] and (n_after == 0 or pd[len(pd) - n_after:] == po[i:]) and len(pd) >= len(po)


def blocks_of(m):
    """paths to declaration blocks: list of (path, items) where path addresses the statement"""
    out = []

    def walk(stmts, path):
        for j, s in enumerate(stmts):
            if s['k'] in ('style', 'fontface', 'page'):
                out.append((path + [j], s['block']))
            if s['k'] == 'media':
                walk(s['rules'], path + [j])

    walk(m['stmts'], [])
    return out


def stmt_lists(m):
    """insertion lists for statements: top level (after the header section) and @media rule lists"""
    out = [([], m['stmts'])]

    def walk(stmts, path):
        for j, s in enumerate(stmts):
            if s['k'] == 'media':
                out.append((path + [j], s['rules']))
                walk(s['rules'], path + [j])

    walk(m['stmts'], [])
    return out


def get_stmt_proj(proj, path):
    cur = proj
    node = None
    for j in path:
        if j >= len(cur):
            return None
        node = cur[j]
        cur = node[2] if node[0] == 'media' else ()
    return node


def block_of_proj(node):
    if node is None:
        return None
    return {'style': 3, 'fontface': 1, 'page': 3}.get(node[0]) and node[{'style': 3, 'fontface': 1, 'page': 3}[node[0]]]


def replace_at(proj, path, new):
    """copy of proj with the node at path replaced"""
    if not path:
        return new
    j = path[0]
    node = proj[j]
    if len(path) == 1:
        return proj[:j] + (new,) + proj[j + 1:]
    inner = replace_at(node[2], path[1:], new)
    return proj[:j] + (node[:2] + (inner,),) + proj[j + 1:]


inject_decl_strategy = st.fixed_dictionaries({
    'model': A.sheet(max_body=3), 'seed': st.integers(0, 2 ** 30), 'which': st.integers(0, 50), 'pos': st.integers(0, 6),
    'garbage': st.sampled_from(DECL_GARBAGE + sorted(ENDS_WITH_BLOCK)), 'noterm': st.booleans(),
})


def check_inject_decl(case, ctx):
    m = case['model']
    blocks = blocks_of(m)
    if not blocks:
        ctx.event('no-block')
        return
    path, items = blocks[case['which'] % len(blocks)]
    i = min(case['pos'], len(items))
    orig_text = A.render_sheet(m, case['seed'])
    items.insert(i, {'k': 'raw', 'text': case['garbage'], 'noterm': bool(case.get('noterm')) and case['garbage'] in ENDS_WITH_BLOCK})
    try:
        dam_text = A.render_sheet(m, case['seed'])
    finally:
        del items[i]
    with lib('project'):
        po = P.p_sheet(parse(orig_text), resolved=True)
        pd = P.p_sheet(parse(dam_text), resolved=True)
    node_o, node_d = get_stmt_proj(po, path), get_stmt_proj(pd, path)
    if node_o is None:
        raise Violation('harness:path', f'{path} in {po!r}')
    if node_d is None or node_d[0] != node_o[0]:
        raise Violation('decl:rule-lost-or-changed', f'garbage {case["garbage"]!r} at item {i} of {path}: {dam_text!r}: '
                        f'{P.first_diff(pd, po)}')
    bo, bd = block_of_proj(node_o), block_of_proj(node_d)
    # everything outside the block identical
    idx = {'style': 3, 'fontface': 1, 'page': 3}[node_o[0]]
    same_outside = replace_at(pd, path, node_d[:idx] + (bo,) + node_d[idx + 1:]) == po
    if not same_outside:
        raise Violation('decl:damage-leaks-outside-block', f'garbage {case["garbage"]!r} at item {i} of {path}: {dam_text!r}: '
                        f'{P.first_diff(replace_at(pd, path, node_d[:idx] + (bo,) + node_d[idx + 1:]), po)}')
    # declaration i counts items incl. comments; the projection keeps both
    if not contained(bo, bd, i):
        first = case['garbage'].lstrip()[:1]
        kind = {'(': 'paren', '[': 'bracket', '{': 'brace'}.get(first, 'other')
        raise Violation('decl:following-or-preceding-items-lost:' + kind,
                        f'garbage {case["garbage"]!r} at item {i}: {dam_text!r}: block {bd!r} vs {bo!r}')
    # the damaged construct itself must not turn into declarations (a malformed declaration is skipped up to its ';');
    # the few garbage texts that hold a well-formed declaration in front of the damage are exempt
    if case['garbage'] not in MAY_LEAVE_DECLARATION:
        n_after = len(bo) - i
        extra = bd[i:len(bd) - n_after] if n_after else bd[i:]
        leaked = [x for x in extra if x and x[0] == 'decl']
        if leaked:
            raise Violation('decl:garbage-parsed-as-declaration', f'garbage {case["garbage"]!r} at item {i}: {dam_text!r}: left {leaked!r}')
    ctx.event('garbage:' + case['garbage'][:12])
    ctx.case(dam_text, i < len(items), {'damaged': dam_text[:300], 'garbage': case['garbage'], 'index': i})


inject_stmt_strategy = st.fixed_dictionaries({
    'model': A.sheet(max_body=4), 'seed': st.integers(0, 2 ** 30), 'which': st.integers(0, 50), 'pos': st.integers(0, 8),
    'garbage': st.sampled_from(STMT_GARBAGE),
})


def header_len(stmts):
    n = 0
    for s in stmts:
        if s['k'] in ('charset', 'import', 'namespace') or (s['k'] == 'comment' and n < len(stmts)):
            n += 1
        else:
            break
    # comments after the header belong to the body: back up over trailing comments
    while n and stmts[n - 1]['k'] == 'comment':
        n -= 1
    return n


def check_inject_stmt(case, ctx):
    m = case['model']
    lists = stmt_lists(m)
    path, stmts = lists[case['which'] % len(lists)]
    lo = header_len(stmts) if not path else 0
    g = case['garbage']
    if not path and g in HEADER_SAFE and case['pos'] % 2:
        # a rule with an invalid selector is ignored wherever it stands, also between the @import / @namespace rules
        # (not before @charset, which must be first)
        lo = 1 if stmts and stmts[0]['k'] == 'charset' else 0
        ctx.event('position:inside-header')
    i = min(lo + case['pos'], len(stmts))
    if not path and g.startswith(('@namespace', '@import', '@charset')):
        # "misplaced" means: after the first statement that closes the header section
        first_body = next((j for j in range(lo, len(stmts)) if stmts[j]['k'] in ('style', 'media', 'page', 'fontface')), None)
        if first_body is None:
            ctx.event('skipped:no-body-statement')
            return
        i = max(i, first_body + 1)
    orig_text = A.render_sheet(m, case['seed'])
    stmts.insert(i, {'k': 'raw', 'text': g})
    try:
        dam_text = A.render_sheet(m, case['seed'])
    finally:
        del stmts[i]
    with lib('project'):
        po = P.p_sheet(parse(orig_text), resolved=True)
        pd = P.p_sheet(parse(dam_text), resolved=True)
    if path:
        node_o, node_d = get_stmt_proj(po, path), get_stmt_proj(pd, path)
        if node_d is None or node_d[0] != 'media':
            raise Violation('stmt:enclosing-media-lost', f'garbage {g!r} at {i} of {path}: {dam_text!r}')
        lo_, ld_ = node_o[2], node_d[2]
        if replace_at(pd, path, node_d[:2] + (lo_,)) != po:
            raise Violation('stmt:damage-leaks-outside-list', f'garbage {g!r} at {i} of {path}: {dam_text!r}: '
                            f'{P.first_diff(replace_at(pd, path, node_d[:2] + (lo_,)), po)}')
    else:
        lo_, ld_ = po, pd
    if not contained(lo_, ld_, i):
        raise Violation('stmt:following-or-preceding-statements-lost:' + g.split()[0][:10],
                        f'garbage {g!r} at statement {i} of {path}: {dam_text!r}: {P.first_diff(ld_, lo_)}')
    ctx.event('garbage:' + g[:12])
    ctx.case(dam_text, i < len(stmts), {'damaged': dam_text[:300], 'garbage': g, 'index': i})


# --------------------------------------------------------------------------- truncation

trunc_stmt_strategy = st.fixed_dictionaries({'model': A.sheet(max_body=3), 'seed': st.integers(0, 2 ** 30)})


def check_trunc_stmt(case, ctx):
    m = case['model']
    r = A.R(case['seed'])
    text = ''
    ends = []
    for i, s in enumerate(m['stmts']):
        text += (r.may_nc() if i and s['k'] != 'charset' else '') + A.render_stmt(s, r)
        ends.append(len(text))
        text += r.nl()
    exp = A.exp_sheet(m)
    with lib('project'):
        full = P.p_sheet(parse(text))
    if full != exp:
        ctx.event('skipped:full-text-differs-from-model(C02)')
        return
    n_nt = 0
    for k in range(len(text) + 1):
        mcount = sum(1 for e in ends if e <= k)
        with lib('project'):
            pk = P.p_sheet(parse(text[:k]))
        if pk[:mcount] != exp[:mcount]:
            inside = 'string' if text[:k].count('"') % 2 else 'other'
            raise Violation('truncate:complete-statement-lost', f'cut at {k} of {text!r}: complete statements {mcount}: '
                            f'{P.first_diff(pk[:mcount], exp[:mcount])}')
        if mcount and k not in ends:
            n_nt += 1
    ctx.event('prefixes', len(text) + 1)
    ctx.case(text, n_nt > 0, {'text': text[:300], 'prefixes': len(text) + 1})


trunc_decl_strategy = st.fixed_dictionaries({
    'block': A.block(max_items=5, min_items=1), 'seed': st.integers(0, 2 ** 30),
    'wrap': st.sampled_from(['a', '@media print{a', '@page', '@font-face', '@media tv{@media print{b']),
})


def check_trunc_decl(case, ctx):
    r = A.R(case['seed'])
    text = case['wrap'] + r.may_nc() + '{'
    ends = []
    for it in case['block']:
        if it['k'] == 'comment':
            text += r.nl() + '/*' + it['text'] + '*/'
            ends.append(len(text))
        else:
            text += r.nl() + A.render_decl(it, r) + r.may_nc() + ';'
            ends.append(len(text))
    text += r.nl() + '}' * (case['wrap'].count('{') + 1)
    exp = A.exp_block(case['block'])
    depth = case['wrap'].count('{')

    def block_of(proj):
        if not proj:
            return None
        node = proj[0]
        for _ in range(depth):
            if node[0] != 'media' or not node[2]:
                return None
            node = node[2][0]
        return block_of_proj(node)

    with lib('project'):
        full = block_of(P.p_sheet(parse(text)))
    if full != exp:
        ctx.event('skipped:full-text-differs-from-model(C02)')
        return
    start = text.index('{', len(case['wrap']) - 1 if depth else 0)
    n_nt = 0
    for k in range(start + 1, len(text) + 1):
        mcount = sum(1 for e in ends if e <= k)
        if not mcount:
            continue
        with lib('project'):
            bk = block_of(P.p_sheet(parse(text[:k])))
        if bk is None or bk[:mcount] != exp[:mcount]:
            raise Violation('truncate:complete-declaration-lost', f'cut at {k} of {text!r}: complete items {mcount}: {bk!r} vs {exp[:mcount]!r}')
        if k not in ends:
            n_nt += 1
    ctx.event('prefixes', len(text) - start)
    ctx.case(text, n_nt > 0, {'text': text[:300]})


SUBS = [
    Sub('inject_decl', check_inject_decl, strategy=inject_decl_strategy, quick=2500, thorough=200000, shards_quick=8, budget_quick=60),
    Sub('inject_stmt', check_inject_stmt, strategy=inject_stmt_strategy, quick=2500, thorough=200000, shards_quick=8, budget_quick=60),
    Sub('trunc_stmt', check_trunc_stmt, strategy=trunc_stmt_strategy, quick=80, thorough=6000, shards_quick=8, budget_quick=60),
    Sub('trunc_decl', check_trunc_decl, strategy=trunc_decl_strategy, quick=150, thorough=10000, shards_quick=8, budget_quick=60),
]


# --------------------------------------------------------------------------- escaped brackets in the damaged part (listed finding)

ESC_SHEETS = [
    ('a { color: red } @foo \\7b; c { left: 0 } d { top: 0 }', 'a { color: red } c { left: 0 } d { top: 0 }'),
    ('a { color: red; $ \\7b ; width: 1px } b { top: 0 }', 'a { color: red; width: 1px } b { top: 0 }'),
    ('a { top: 0 } \\7b {} c { left: 0 } d { top: 0 }', 'a { top: 0 } c { left: 0 } d { top: 0 }'),
    ('a { color: red; \\28 y; width: 1px } b { top: 0 }', 'a { color: red; width: 1px } b { top: 0 }'),
    # garbage with a balanced block inside a margin box
    ('@page { @top-left { color: red; foo {a:b}; width: 1px } margin: 1cm } a { top: 0 }',
     '@page { @top-left { color: red; width: 1px } margin: 1cm } a { top: 0 }', 'margin-box:block-in-garbage-closes-the-box'),
    # an at-rule between declarations ends with its block: what follows, with or without white space, is the next declaration
    ('a { left: 0; @media print { a { top: 0 } } color: red; top: 0 } b { top: 0 }', 'a { left: 0; color: red; top: 0 } b { top: 0 }', 'decl:known-at-rule-swallows-next-declaration'),
    ('a{left:0;@page{margin:0}color:red;top:0}b{top:0}', 'a { left: 0; color: red; top: 0 } b { top: 0 }', 'decl:known-at-rule-swallows-next-declaration'),
    ('@font-face { @media print { a { top: 0 } }/*;*/ font-family: x; src: url(y) }', '@font-face { /*;*/ font-family: x; src: url(y) }', 'decl:known-at-rule-swallows-next-declaration'),
    ('@page { @font-face { x: y } margin: 1cm; @import "x"; top: 0 }', '@page { margin: 1cm; top: 0 }', 'decl:known-at-rule-swallows-next-declaration'),
]


def escbrace_cases(tier):
    for i in range(len(ESC_SHEETS)):
        yield {'i': i}


def check_escbrace(case, ctx):
    damaged, original = ESC_SHEETS[case['i']][:2]
    sig = (ESC_SHEETS[case['i']] + ('escaped-bracket:treated-as-structure',))[2]
    saved = cssutils.log.raiseExceptions
    cssutils.log.raiseExceptions = False
    try:
        pd = P.p_sheet(parse(damaged))
        po = P.p_sheet(parse(original))
    finally:
        cssutils.log.raiseExceptions = saved
    ctx.case(damaged, True, {'damaged': damaged})
    if [x for x in pd if x[0] != 'unknown'] != list(po):
        raise Violation(sig, f'{damaged!r} parses to {pd}, the undamaged sheet to {po}')


SUBS.append(Sub('escbrace', check_escbrace, enumerate=escbrace_cases, shards_quick=1, shards_thorough=1))


from vlib.reported import reported_sub  # noqa: E402

SUBS.append(reported_sub('C04'))
