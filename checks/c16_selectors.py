"""C16 — selector specificity, structure and list semantics."""

import xml.dom

from hypothesis import strategies as st

import cssutils
from cssutils.css import Selector, SelectorList
from vlib import selmodel as M
from vlib.runner import Sub, Violation, lib

PROPERTY = 'C16'
RULE = (
    'spec: selectors generated from the CSS3 selector grammar (1..3 compounds of type/universal with optional '
    'namespace prefix, #id, .class, [att] with every operator and ident/string values, pseudo-classes, functional '
    'pseudo-classes with an+b / ident / string arguments, :not(simple), pseudo-elements in one- and two-colon form; the '
    'four combinators) with the expected specificity and structure computed from the model; each is rendered in the '
    'canonical and 3 random spellings (white space, comments - also between the two tokens of a class, pseudo or qualified name -, letter case of pseudo names and :not, hex escapes, quote '
    'style), parsed stand-alone and attached to a sheet with @namespace rules, and re-read from selectorText; the combinator items of '
    'Selector.seq must be exactly the combinators of the model (white space around comments is no second combinator). '
    'list: sequences of appendSelector / list[i]= / selectorText= with valid, duplicate and invalid members against a '
    'list model. logmode: in error-logging mode a list with one invalid (bracket-balanced) member at every position, through a '
    'parsed sheet (top level and inside @media), SelectorList(), selectorList.selectorText=, rule.selectorText= and '
    'appendSelector: the whole rule must be gone, respectively the old list unchanged. ext: forms beyond Selectors 3 that cssutils '
    'accepts (pseudo-element inside :not(), functional pseudo-elements) appended to bases of known specificity, exhaustively: if '
    'accepted, the specificity formula must hold and survive a round trip. Non-trivial (spec): >=2 compounds and a negation, attribute or functional pseudo; (list): an append of '
    'a selector already present or a rejected assignment; distinct by canonical selector / history.'
    ' Invalid members also: a function inside the argument of a functional pseudo, white space or a comment of an undeclared prefix inside a qualified name.'
)
ASSUMPTIONS = [
    'specificity is the formula of the statement: pseudo-classes and the universal selector count nothing',
    'functional pseudo-classes inside :not() are not generated (rejected by cssutils: listed finding F16-1, probed by a witness)',
    'identifiers consist of ordinary name characters (those needing escapes on output belong to C03)',
    'pseudo-elements are not generated inside :not()',
]

DEFAULT_NS = 'http://default.example/ns'


def nsmap(nslevel):
    m = dict(M.PREFIXES) if nslevel else {}
    if nslevel == 2:
        m[''] = DEFAULT_NS
    return m


spec_strategy = st.integers(0, 2).flatmap(lambda lvl: st.fixed_dictionaries({
    'nslevel': st.just(lvl),
    'sel': M.selector(lvl),
    'seeds': st.lists(st.integers(1, 2 ** 30), min_size=3, max_size=3),
}))


def parse_standalone(text, ns):
    with lib('Selector', expect=(xml.dom.DOMException,)):
        return Selector((text, dict(ns)))


COMB_TYPES = {' ': 'descendant', '>': 'child', '+': 'adjacent-sibling', '~': 'following-sibling'}


def check_spec(case, ctx):
    sel, lvl = case['sel'], case['nslevel']
    ns = nsmap(lvl)
    exp_spec = M.specificity(sel)
    exp_struct = M.struct_of_model(sel)
    saved = cssutils.log.raiseExceptions
    cssutils.log.raiseExceptions = True
    try:
        texts = [M.render_selector(sel, 0)] + [M.render_selector(sel, s) for s in case['seeds']]
        canon_out = None
        for n, text in enumerate(texts):
            try:
                s = parse_standalone(text, ns)
            except xml.dom.DOMException as e:
                raise Violation('spec:valid-selector-rejected', f'{text!r}: {e}')
            with lib('observe'):
                out, spec, wf = s.selectorText, s.specificity, s.wellformed
            if not wf:
                raise Violation('spec:valid-selector-rejected', f'{text!r} not wellformed')
            if tuple(spec) != exp_spec:
                raise Violation('spec:specificity', f'{text!r}: {spec}, expected {exp_spec}')
            got_struct = M.struct_of_text(out)
            if got_struct != exp_struct:
                raise Violation('spec:structure', f'{text!r} -> {out!r}: {got_struct} expected {exp_struct}')
            # the parsed sequence holds exactly the combinators of the model (documented item types)
            with lib('observe'):
                got_combs = [i.type for i in s.seq if i.type in COMB_TYPES.values()]
            exp_combs = [COMB_TYPES[c] for c in sel['combs']]
            if got_combs != exp_combs:
                raise Violation('spec:combinators-in-seq', f'{text!r}: seq holds {got_combs}, expected {exp_combs}')
            if canon_out is None:
                canon_out = out
            # round trip of the serialisation
            try:
                s2 = parse_standalone(out, ns)
            except xml.dom.DOMException as e:
                raise Violation('spec:serialisation-rejected', f'{text!r} -> {out!r}: {e}')
            with lib('observe'):
                if tuple(s2.specificity) != exp_spec or s2.selectorText != out:
                    raise Violation('spec:round-trip', f'{out!r} -> {s2.selectorText!r} {s2.specificity}')
        # attached to a sheet
        head = ''.join(f'@namespace {p} "{u}";\n' if p else f'@namespace "{u}";\n' for p, u in sorted(ns.items(), reverse=True))
        text = texts[1]
        with lib('sheet', expect=(xml.dom.DOMException,)):
            sheet = cssutils.CSSParser(raiseExceptions=True).parseString(head + text + ' { top: 0 }')
        cssutils.log.raiseExceptions = True
        rules = [r for r in sheet.cssRules if r.type == r.STYLE_RULE]
        if len(rules) != 1 or rules[0].selectorList.length != 1:
            raise Violation('spec:attached-rule-lost', f'{text!r}: {sheet.cssText!r}')
        with lib('observe'):
            a = rules[0].selectorList[0]
            if tuple(a.specificity) != exp_spec:
                raise Violation('spec:specificity-attached', f'{text!r}: {a.specificity}, expected {exp_spec}')
            if M.struct_of_text(a.selectorText) != exp_struct:
                raise Violation('spec:structure-attached', f'{text!r} -> {a.selectorText!r}')
            # element and namespace resolution of the subject
            last = sel['compounds'][-1]['type']
            if last is not None:
                uri = {None: ns.get('', None), '': '', '*': cssutils._ANYNS}.get(last['ns'], ns.get(last['ns']))
                if a.element != (uri, last['name']):
                    raise Violation('spec:element', f'{text!r}: element {a.element!r}, expected {(uri, last["name"])!r}')
    finally:
        cssutils.log.raiseExceptions = saved
    for comp in sel['compounds']:
        for p in comp['parts']:
            ctx.event('part:' + p['k'])
        if comp['pe']:
            ctx.event('pseudo-element:%d-colon' % comp['pe']['colons'])
    ctx.event('nslevel:%d' % lvl)
    ctx.case(texts[0], M.nontrivial(sel), {'canonical': texts[0], 'spelling': texts[1], 'specificity': list(exp_spec)})


# --------------------------------------------------------------------------- lists

POOL = ['a', 'b', 'a b', 'a>b', '.c', '#i', '#aabbcc', '#abc', 'a:hover', 'li:nth-child(2n+1)', 'a[href]', ':not(.x)', 'p::first-line', '*']
SPELL = {'a b': ['a   b', 'a\n\tb'], 'a>b': ['a > b', 'a>b'], 'a:hover': ['a:HOVER'], ':not(.x)': [':NOT( .x )'],
         'li:nth-child(2n+1)': ['li:NTH-CHILD(2n+1)'], 'a[href]': ['a[ href ]']}
INVALID = ['a,,b', '1a', 'a:::b', '', 'a[', 'a >', '.#x', 'a b,', '@x', 'a{', ':not(a b)', 'a:not()',
           ':lang(g(en)', 'a:nth-child(n(2)', '::a(b(c)', ':not(o(dd)', '*| b', '*|\tb', '[*| b]', ':not(*| b)', 'zz|/**/b', '| b']

lop = st.one_of(
    st.tuples(st.just('append'), st.integers(0, len(POOL) - 1), st.integers(0, 2)),
    st.tuples(st.just('append'), st.integers(0, len(POOL) - 1), st.just(0)),
    st.tuples(st.just('append_bad'), st.integers(0, len(INVALID) - 1)),
    st.tuples(st.just('setitem'), st.integers(-4, 4), st.integers(0, len(POOL) - 1)),
    st.tuples(st.just('setitem_bad'), st.integers(-4, 4), st.integers(0, len(INVALID) - 1)),
    st.tuples(st.just('text'), st.lists(st.integers(0, len(POOL) - 1), min_size=1, max_size=4)),
    st.tuples(st.just('text_bad'), st.lists(st.integers(0, len(POOL) - 1), min_size=0, max_size=3),
              st.integers(0, len(INVALID) - 1), st.integers(0, 3)),
)
list_strategy = st.fixed_dictionaries({
    'init': st.lists(st.integers(0, len(POOL) - 1), min_size=1, max_size=4),
    'attached': st.booleans(),
    'ops': st.lists(lop, min_size=1, max_size=8),
}).map(lambda d: {**d, 'ops': [list(o) for o in d['ops']]})


def spelled(i, k):
    base = POOL[i]
    alts = SPELL.get(base, [])
    return alts[(k - 1) % len(alts)] if k and alts else base


def canon_text(t):
    return Selector(t).selectorText


def observe_list(sl):
    with lib('observe'):
        items = [s.selectorText for s in sl]
        return items, sl.length, sl.selectorText


def check_list(case, ctx):
    saved = cssutils.log.raiseExceptions
    cssutils.log.raiseExceptions = True
    try:
        canon = [canon_text(p) for p in POOL]
        init = ', '.join(POOL[i] for i in case['init'])
        with lib('init'):
            if case['attached']:
                sheet = cssutils.CSSParser(raiseExceptions=True).parseString(init + ' { top: 0 }')
                cssutils.log.raiseExceptions = True
                sl = sheet.cssRules[0].selectorList
            else:
                sl = SelectorList(init)
        model = [canon[i] for i in case['init']]
        nontrivial = False

        def compare(step):
            items, n, text = observe_list(sl)
            if items != model or n != len(model):
                raise Violation('list:model', f'after {step}: {items} vs model {model}')
            if M.struct_of_text(text.replace(',', ' , ')) != M.struct_of_text(' , '.join(model)):
                raise Violation('list:selectorText', f'after {step}: {text!r} vs {model}')
            with lib('reparse'):
                again = [s.selectorText for s in SelectorList(text)]
            if again != model:
                raise Violation('list:reparse', f'after {step}: {text!r} reparses to {again}, list is {model}')

        compare('init')
        for k, o in enumerate(case['ops']):
            step = f'op {k} {o!r}'
            before = observe_list(sl)
            kind = o[0]
            ctx.event('op:' + kind)
            expect_reject = kind.endswith('_bad')
            newmodel = model
            if kind == 'append':
                c = canon[o[1]]
                if c in model:
                    nontrivial = True
                newmodel = [m for m in model if m != c] + [c]
                call = lambda: sl.appendSelector(spelled(o[1], o[2]))  # noqa: E731
            elif kind == 'append_bad':
                call = lambda: sl.appendSelector(INVALID[o[1]])  # noqa: E731
            elif kind == 'setitem':
                if not -len(model) <= o[1] < len(model):
                    continue
                newmodel = list(model)
                newmodel[o[1]] = canon[o[2]]
                call = lambda: sl.__setitem__(o[1], POOL[o[2]])  # noqa: E731
            elif kind == 'setitem_bad':
                if not -len(model) <= o[1] < len(model):
                    continue
                call = lambda: sl.__setitem__(o[1], INVALID[o[2]])  # noqa: E731
            elif kind == 'text':
                newmodel = [canon[i] for i in o[1]]
                call = lambda: setattr(sl, 'selectorText', ' , '.join(POOL[i] for i in o[1]))  # noqa: E731
            else:
                members = [POOL[i] for i in o[1]]
                pos = min(o[3], len(members))
                members.insert(pos, INVALID[o[2]])
                if INVALID[o[2]] == '' and len(members) == 1:
                    continue  # the empty text is not an assignment of a list
                call = lambda: setattr(sl, 'selectorText', ', '.join(members))  # noqa: E731
            try:
                with lib('op:' + kind, expect=(xml.dom.DOMException,)):
                    call()
                raised = None
            except xml.dom.DOMException as e:
                raised = e
            if expect_reject:
                nontrivial = True
                if raised is None and observe_list(sl) != before:
                    raise Violation('list:invalid-member-accepted', f'{step}: {before[2]!r} -> {observe_list(sl)[2]!r}')
                if observe_list(sl) != before:
                    raise Violation('list:changed-by-rejected-operation', f'{step}: {before} -> {observe_list(sl)}')
            else:
                if raised is not None:
                    raise Violation('list:valid-operation-rejected', f'{step}: {raised}')
                model = newmodel
            compare(step)
        ctx.case(case, nontrivial, case)
    finally:
        cssutils.log.raiseExceptions = saved


# --------------------------------------------------------------------------- excluded region: functional pseudo in :not()


def notfunc_cases(tier):
    for t in ['*:not(:lang(en))', 'a:not(:nth-child(2))', 'li:not(:nth-of-type(2n+1)) b']:
        yield {'text': t}


def check_notfunc(case, ctx):
    saved = cssutils.log.raiseExceptions
    cssutils.log.raiseExceptions = True
    try:
        ctx.case(case['text'], True, case)
        try:
            with lib('Selector', expect=(xml.dom.DOMException,)):
                s = Selector(case['text'])
                ok = s.wellformed
        except xml.dom.DOMException as e:
            raise Violation('spec:functional-pseudo-in-negation-rejected', f'{case["text"]!r}: {e}')
        if not ok:
            raise Violation('spec:functional-pseudo-in-negation-rejected', case['text'])
    finally:
        cssutils.log.raiseExceptions = saved


SUBS = [
    Sub('spec', check_spec, strategy=spec_strategy, quick=5000, thorough=400000, shards_quick=8),
    Sub('list', check_list, strategy=list_strategy, quick=2500, thorough=150000, shards_quick=4),
    Sub('notfunc', check_notfunc, enumerate=notfunc_cases, shards_quick=1, shards_thorough=1),
]


# --------------------------------------------------------------------------- literal regression texts


def literal_cases(tier):
    yield {'text': 'a:NOT(.b)', 'spec': [0, 0, 1, 1], 'struct': ['a', ':not(', '.b', ')']}
    yield {'text': 'a:Not( #x )', 'spec': [0, 1, 0, 1], 'struct': ['a', ':not(', '#x', ')']}
    yield {'text': 'a:nth-child(/*c*/ 2n+1)', 'spec': [0, 0, 0, 1], 'struct': ['a', ':nth-child', '(2n+1)']}
    yield {'text': 'a:lang( /*c*/ en )', 'spec': [0, 0, 0, 1], 'struct': ['a', ':lang', '(en)']}
    yield {'text': 'A:BEFORE', 'spec': [0, 0, 0, 2], 'struct': ['A', ':before']}
    yield {'text': 'p:First-Line', 'spec': [0, 0, 0, 2], 'struct': ['p', ':first-line']}
    yield {'tag': 'u-plus-a', 'a': 'u + a', 'b': 'u+a'}
    yield {'tag': 'u-plus-a', 'a': 'x .u + dd', 'b': 'x .u+dd'}
    yield {'tag': 'comment-combinator', 'a': 'a /**/ > b', 'b': 'a > b'}
    yield {'tag': 'comment-combinator', 'a': 'a /**/ b', 'b': 'a b'}
    yield {'tag': 'escape-roundtrip', 'a': 'a\\20 b', 'b': None}
    yield {'tag': 'escape-roundtrip', 'a': '.\\31 a', 'b': None}


def check_literal(case, ctx):
    saved = cssutils.log.raiseExceptions
    cssutils.log.raiseExceptions = True
    try:
        if 'tag' in case:
            return _check_literal_pair(case, ctx)
        ctx.case(case['text'], True, case)
        try:
            with lib('Selector', expect=(xml.dom.DOMException,)):
                s = Selector(case['text'])
                spec, out = list(s.specificity), s.selectorText
        except xml.dom.DOMException as e:
            raise Violation('literal:rejected', f'{case["text"]!r}: {e}')
        if spec != case['spec']:
            raise Violation('literal:specificity', f'{case["text"]!r}: {spec} expected {case["spec"]}')
        if M.struct_of_text(out) != case['struct']:
            raise Violation('literal:structure', f'{case["text"]!r} -> {out!r}')
    finally:
        cssutils.log.raiseExceptions = saved


def _spec_of(text):
    try:
        with lib('Selector', expect=(xml.dom.DOMException,)):
            s = Selector(text)
            return tuple(s.specificity), s.selectorText
    except xml.dom.DOMException as e:
        return None, str(e)


def _check_literal_pair(case, ctx):
    ctx.case([case['tag'], case['a']], True, case)
    sa, ta = _spec_of(case['a'])
    if case['tag'] == 'u-plus-a':
        sb, tb = _spec_of(case['b'])
        if sa != sb:
            raise Violation('literal:u-plus-a-is-a-unicode-range', f'{case["a"]!r}: {sa}; {case["b"]!r}: {sb} ({tb})')
    elif case['tag'] == 'comment-combinator':
        def combs(text):
            s = Selector(text)
            return [i.type for i in s.seq if i.type in ('descendant', 'child', 'adjacent-sibling', 'following-sibling')]
        with lib('Selector'):
            ca, cb = combs(case['a']), combs(case['b'])
        if ca != cb:
            raise Violation('literal:comment-next-to-combinator', f'{case["a"]!r} has combinators {ca}, {case["b"]!r} has {cb}')
    elif case['tag'] == 'escape-roundtrip':
        sb, tb = _spec_of(ta)
        if sa != sb:
            raise Violation('literal:escape-lost-on-round-trip', f'{case["a"]!r}: {sa}, written {ta!r}, which reparses as {sb} ({tb})')


SUBS.append(Sub('literal', check_literal, enumerate=literal_cases, shards_quick=1, shards_thorough=1))


# --------------------------------------------------------------------------- a list with an invalid member, error-logging mode

VALID_M = ['a', '.b', '#c', 'd > e', 'f:hover', '[g]', ':not(.h)', 'i::before']
INVALID_M = ['$', '1a', 'a:::b', 'a[]', '.#x', ':not(a b)', 'a:not()', '>', 'a b >', '[=v]', '#', '.',
             ':not(a)b', 'a:nth-child(2)b', ':not(.c)*', 'a:not(b)c', '[a>b=c]', '[a~b=c]', '[[a]=b]', 'p[a+b]', '.c*', '[a]b', ':hover*']
logmode_strategy = st.fixed_dictionaries({
    'members': st.lists(st.integers(0, len(VALID_M) - 1), min_size=1, max_size=3),
    'bad': st.integers(0, len(INVALID_M) - 1),
    'pos': st.integers(0, 3),
    'entry': st.sampled_from(['sheet', 'sheet-media', 'SelectorList()', 'selectorList.selectorText=', 'rule.selectorText=', 'appendSelector']),
})


def check_logmode(case, ctx):
    members = [VALID_M[i] for i in case['members']]
    pos = min(case['pos'], len(members))
    bad = INVALID_M[case['bad']]
    text = ', '.join(members[:pos] + [bad] + members[pos:])
    entry = case['entry']
    saved = cssutils.log.raiseExceptions
    cssutils.log.raiseExceptions = False
    try:
        with lib(entry):
            if entry in ('sheet', 'sheet-media'):
                src = 'x { left: 0 } %s { top: 0 } y { left: 0 }' % text
                if entry == 'sheet-media':
                    src = '@media print { %s }' % src
                sheet = cssutils.parseString(src)
                rules = sheet.cssRules if entry == 'sheet' else sheet.cssRules[0].cssRules
                got = [r.selectorText for r in rules if r.type == r.STYLE_RULE]
                if got != ['x', 'y']:
                    raise Violation('list:invalid-member-not-rejecting-whole-rule:' + entry, f'{src!r}: rules {got}')
            elif entry == 'SelectorList()':
                sl = SelectorList(selectorText=text)
                if sl.length or sl.selectorText:
                    raise Violation('list:invalid-member-not-rejecting-whole-list:' + entry, f'{text!r}: {sl.selectorText!r}')
            elif entry == 'appendSelector':
                sl = SelectorList(selectorText='k, l')
                sl.appendSelector(bad)
                if sl.selectorText != 'k, l':
                    raise Violation('list:invalid-member-appended', f'{bad!r}: {sl.selectorText!r}')
            else:
                sheet = cssutils.parseString('k, l { top: 0 }')
                rule = sheet.cssRules[0]
                if entry == 'rule.selectorText=':
                    rule.selectorText = text
                else:
                    rule.selectorList.selectorText = text
                if rule.selectorText != 'k, l' or rule.selectorList.length != 2:
                    raise Violation('list:invalid-member-not-rejecting-whole-list:' + entry, f'{text!r}: list is now {rule.selectorText!r}')
    finally:
        cssutils.log.raiseExceptions = saved
    ctx.event('entry:' + entry)
    ctx.event('bad-position:' + ('last' if pos == len(members) else 'first' if pos == 0 else 'middle'))
    ctx.case([text, entry], pos < len(members), {'list': text, 'entry': entry})


SUBS.append(Sub('logmode', check_logmode, strategy=logmode_strategy, quick=2500, thorough=80000, shards_quick=4))


# --------------------------------------------------------------------------- forms beyond Selectors 3 that cssutils accepts

BASES = [('a', (0, 0, 0, 1)), ('*', (0, 0, 0, 0)), ('a.b', (0, 0, 1, 1)), ('#i > b', (0, 1, 0, 1)), ('[x] c.d', (0, 0, 2, 1)), ('.e:hover', (0, 0, 1, 0))]  # pseudo-classes are not counted (statement of C16)
EXTENSIONS = [(':not(::after)', 1), (':not(:first-line)', 1), (':NOT( ::before )', 1), ('::slotted(x)', 1), ('::foo(2n+1)', 1), (':not(::first-letter)', 1),
              ('::After', 1), (':not(.z)', 10), (':not(#y)', 100)]


def ext_cases(tier):
    for bi in range(len(BASES)):
        for ei in range(len(EXTENSIONS)):
            for attach in (False, True):
                yield {'base': bi, 'ext': ei, 'attach': attach}


def check_ext(case, ctx):
    base, bspec = BASES[case['base']]
    ext, add = EXTENSIONS[case['ext']]
    text = base + ext
    exp = (0, bspec[1] + add // 100, bspec[2] + (add % 100) // 10, bspec[3] + add % 10)
    saved = cssutils.log.raiseExceptions
    cssutils.log.raiseExceptions = True
    try:
        try:
            with lib('Selector', expect=(xml.dom.DOMException,)):
                if case['attach']:
                    s = cssutils.parseString(text + ' { top: 0 }').cssRules[0].selectorList[0]
                else:
                    s = Selector(text)
                spec, out = tuple(s.specificity), s.selectorText
        except xml.dom.DOMException:
            ctx.event('extension-form-rejected')
            return
        if spec != exp:
            raise Violation('ext:specificity', f'{text!r}: {spec}, expected {exp}')
        with lib('round-trip', expect=()):
            s2 = Selector(out)
            if tuple(s2.specificity) != exp:
                raise Violation('ext:round-trip', f'{text!r} -> {out!r}: {s2.specificity}')
    finally:
        cssutils.log.raiseExceptions = saved
    ctx.case([text, case['attach']], True, {'selector': text, 'specificity': list(exp)})


SUBS.append(Sub('ext', check_ext, enumerate=ext_cases, shards_quick=2, shards_thorough=2))


from vlib.reported import reported_sub  # noqa: E402

SUBS.append(reported_sub('C16'))
