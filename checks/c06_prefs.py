"""C06 — serializer preferences do exactly what they document, in every combination."""

import re
import logging
from fractions import Fraction

from hypothesis import strategies as st

import cssutils
from checks.c03_roundtrip import flatten_nested_comments
from checks.c15_namespaces import used_uris
from vlib import cssmodel as A
from vlib import project as P
from vlib.runner import Sub, Violation, frame_sig

PROPERTY = 'C06'
RULE = (
    'DOMs parsed from abstract sheets (C02 generator: comments at all levels, empty rules, unknown rules, used / unused / '
    'default namespaces, duplicate and !important properties, invalid and unknown properties, both href forms, escaped and '
    'upper-case literal names, shortable and unshortable hashes, numbers in (-1, 1), nested @media, @page with margin '
    'boxes) x assignments to the documented preferences: each alone, pairs, the minified preset, random full assignments '
    '(spacers from {"", " ", "  ", TAB}, lineSeparator from {LF, "", CRLF}, indent from {"", 2, 4 spaces, TAB}). Oracle: the '
    'output parses without a logged syntax error and its projection equals the projection of the DOM after applying the '
    'documented effect of every switched-on preference (comments / empty rules / unknown rules / unused namespace rules '
    'dropped, effective-only / valid-only properties, href form, variable resolution); numbers and hashes compare by '
    'value; assignments touching only layout preferences keep the non-white-space token sequence of the default output; '
    'the at-keywords of the output are the normalised ones (defaultAtKeyword) or, with the switch off, spellings of the source '
    '(white space ending an escape aside); useDefaults() restores the default output byte for byte - of every rule serialised on its own first (rule.cssText is a string '
    'under every assignment), then of the sheet. In half of the cases a second DOM is reached by edits: every top-level rule of the '
    'sheet as written (literal, escaped, upper-case keywords) takes the text of its normalised twin; under the same preferences it '
    'must be written byte for byte like the sheet parsed from the normalised text, rule by rule and as a whole. special: indentSpecificities / lineNumbers with other preferences over the same DOMs '
    'effective: ALL declaration blocks of 2..3 (thorough 4) declarations over two names x {plain, !important} with a repeated name under keepAllProperties=False: '
    'exactly the effective declarations are written, for the sheet and for the block on its own. '
    'plus ladders of selectors of growing specificity (a, a.x, a.x#y, ..., optionally inside @media): no exception, layout only, '
    'defaults restore for parts and sheet. Non-trivial: >= 2 non-default preferences and the DOM holds '
    'an item at least one of them affects; distinct by (preferences, DOM).'
)
ASSUMPTIONS = [
    'indentSpecificities (documented EXPERIMENTAL) and lineNumbers (changes content by design) are only exercised for "no exception" and "defaults restore"',
    'a rule counts as empty when it holds no declaration at any depth; keepEmptyRules keeps empty style, @media, @page, @font-face rules and margin boxes',
    'multi-line comments inside blocks are generated single-line (finding F03-2)',
    'projections are computed under default preferences (the reparsed output is projected after useDefaults())',
]

LAYOUT = {
    'indent': ['', '  ', '    ', '\t'], 'indentClosingBrace': [True, False], 'lineSeparator': ['\n', '', '\r\n'],
    'listItemSpacer': ['', ' ', '  ', '\t'], 'paranthesisSpacer': ['', ' ', '  ', '\t'], 'propertyNameSpacer': ['', ' ', '  ', '\t'],
    'selectorCombinatorSpacer': ['', ' ', '  '], 'spacer': ['', ' ', '  ', '\t'], 'omitLastSemicolon': [True, False],
}
CONTENT = {
    'keepComments': [True, False], 'keepEmptyRules': [True, False], 'keepUnknownAtRules': [True, False],
    'keepUsedNamespaceRulesOnly': [True, False], 'keepAllProperties': [True, False], 'validOnly': [False, True],
    'importHrefFormat': [None, 'string', 'uri'], 'defaultAtKeyword': [True, False], 'defaultPropertyName': [True, False],
    'defaultPropertyPriority': [True, False], 'minimizeColorHash': [True, False], 'omitLeadingZero': [False, True],
    'resolveVariables': [True, False], 'normalizedVarNames': [True, False],
}
SPECIAL = {'indentSpecificities': [False, True], 'lineNumbers': [False, True]}
ALLPREFS = {**LAYOUT, **CONTENT}


@st.composite
def prefs_strategy(draw):
    mode = draw(st.sampled_from(['single', 'pair', 'random', 'random', 'minified', 'layout']))
    if mode == 'minified':
        return {'__minified__': True}
    names = sorted(ALLPREFS)
    if mode == 'single':
        chosen = [draw(st.sampled_from(names))]
    elif mode == 'pair':
        chosen = draw(st.lists(st.sampled_from(names), min_size=2, max_size=2, unique=True))
    elif mode == 'layout':
        chosen = draw(st.lists(st.sampled_from(sorted(LAYOUT)), min_size=2, max_size=6, unique=True))
    else:
        chosen = draw(st.lists(st.sampled_from(names), min_size=3, max_size=len(names), unique=True))
    return {n: draw(st.sampled_from(ALLPREFS[n])) for n in chosen}


case_strategy = st.fixed_dictionaries({'model': A.sheet(max_body=4), 'seed': st.integers(0, 2 ** 30), 'prefs': prefs_strategy(), 'edit': st.booleans()})


def apply_prefs(p):
    cssutils.ser.prefs.useDefaults()
    if p.get('__minified__'):
        cssutils.ser.prefs.useMinified()
        return
    for k, v in p.items():
        setattr(cssutils.ser.prefs, k, v)


def effective_prefs(p):
    cssutils.ser.prefs.useDefaults()
    apply_prefs(p)
    eff = dict(vars(cssutils.ser.prefs))
    cssutils.ser.prefs.useDefaults()
    return eff


def norm_tok(t):
    if len(t) != 2:
        return t
    typ, val = t
    if typ in ('NUMBER', 'DIMENSION', 'PERCENTAGE'):
        i = 0
        while i < len(val) and (val[i] in '+-.0123456789'):
            i += 1
        num, unit = val[:i], val[i:]
        try:
            f = Fraction(num)
        except (ValueError, ZeroDivisionError):
            return t
        if f == 0 and unit in ('px', 'em', 'ex', 'cm', 'mm', 'in', 'pt', 'pc'):
            unit = ''
        return ('NUM', str(f), unit, '+' if num.startswith('+') and f != 0 else '')
    if typ == 'HASH' and len(val) in (4, 7):
        v = val.lower()
        if len(v) == 4:
            v = '#' + ''.join(c * 2 for c in v[1:])
        return ('HASH', v)
    return t


def norm_value(toks):
    return tuple(norm_tok(t) for t in toks)


def has_decl(node):
    k = node[0]
    if k in ('style', 'fontface'):
        block = node[-1] if k == 'fontface' else node[3]
        return any(i[0] == 'decl' for i in block)
    if k == 'page':
        return any(i[0] == 'decl' for i in node[3]) or any(any(i[0] == 'decl' for i in m[2]) for m in node[4] if m[0] == 'margin')
    if k == 'media':
        return any(has_decl(r) for r in node[2] if r[0] in ('style', 'media', 'page', 'fontface'))
    return True


def prune(proj, keep_empty):
    out = []
    for r in proj:
        k = r[0]
        if k == 'media':
            r = r[:2] + (prune(r[2], keep_empty),)
            if not keep_empty and not has_decl(r):
                continue
        elif k == 'page':
            margins = tuple(m for m in r[4] if keep_empty or m[0] != 'margin' or any(i[0] == 'decl' for i in m[2]))
            r = r[:4] + (margins,)
            if not keep_empty and not has_decl(r):
                continue
        elif k == 'fontface':
            if not keep_empty and not has_decl(r):
                continue
        elif k == 'style':
            if not keep_empty and not has_decl(r):
                continue
        out.append(r)
    return tuple(out)


def walk_style_rules(rules):
    for r in rules:
        if r.type == r.STYLE_RULE:
            yield r
        elif r.type == r.MEDIA_RULE:
            yield from walk_style_rules(r.cssRules)


def exp_block(style, eff):
    items = []
    for child in style.children():
        if isinstance(child, cssutils.css.Property):
            items.append(['decl', child.name, norm_value(A.vtoks(child.value)), child.priority, bool(child.valid)])
        elif isinstance(child, cssutils.css.CSSComment):
            items.append(['comment', P.comment_text(child)])
    if not eff['keepAllProperties']:
        eff_idx = {}
        for i, it in enumerate(items):
            if it[0] != 'decl':
                continue
            cur = eff_idx.get(it[1])
            if cur is None or it[3] or not items[cur][3]:
                eff_idx[it[1]] = i
        keep = set(eff_idx.values())
        items = [it for i, it in enumerate(items) if it[0] != 'decl' or i in keep]
    if eff['validOnly']:
        items = [it for it in items if it[0] != 'decl' or it[4]]
    if not eff['keepComments']:
        items = [it for it in items if it[0] != 'comment']
    return tuple(tuple(it[:4]) if it[0] == 'decl' else tuple(it) for it in items)


def exp_rules(rules, eff, used):
    out = []
    for r in rules:
        t = r.type
        if t == r.COMMENT:
            if eff['keepComments']:
                out.append(('comment', P.comment_text(r)))
        elif t == r.UNKNOWN_RULE:
            if eff['keepUnknownAtRules']:
                out.append(P.p_rule(r))
        elif t == r.NAMESPACE_RULE:
            if not eff['keepUsedNamespaceRulesOnly'] or r.namespaceURI in used:
                out.append(P.p_rule(r))
        elif t == r.STYLE_RULE:
            base = P.p_rule(r)
            out.append(base[:3] + (exp_block(r.style, eff),))
        elif t == r.MEDIA_RULE:
            base = P.p_rule(r)
            out.append(base[:2] + (tuple(exp_rules(r.cssRules, eff, used)),))
        elif t == r.PAGE_RULE:
            base = P.p_rule(r)
            margins = tuple(('margin', c.margin, exp_block(c.style, eff)) for c in r.cssRules if c.type == c.MARGIN_RULE)
            out.append(base[:3] + (exp_block(r.style, eff), margins))
        elif t == r.FONT_FACE_RULE:
            out.append(('fontface', exp_block(r.style, eff)))
        elif t == r.VARIABLES_RULE:
            if not eff['resolveVariables']:
                out.append(P.p_rule(r))
        else:
            out.append(P.p_rule(r))
    return out


def norm_proj(proj):
    """numbers and hashes by value in every declaration"""
    out = []
    for r in proj:
        k = r[0]
        if k == 'style':
            r = r[:3] + (norm_block(r[3]),)
        elif k == 'fontface':
            r = (k, norm_block(r[1]))
        elif k == 'page':
            r = r[:3] + (norm_block(r[3]), tuple(('margin', m[1], norm_block(m[2])) if m[0] == 'margin' else m for m in r[4]))
        elif k == 'media':
            r = r[:2] + (norm_proj(r[2]),)
        out.append(r)
    return tuple(out)


def norm_block(block):
    return tuple((i[0], i[1], norm_value(i[2]), i[3]) if i[0] == 'decl' else i for i in block)


class ErrCount:
    def __enter__(self):
        self.msgs = []

        class H(logging.Handler):
            def emit(h, record):
                if record.levelno >= logging.ERROR:
                    self.msgs.append(record.getMessage())

        self.h = H()
        log = cssutils.log._log
        self.old = list(log.handlers)
        for x in self.old:
            log.removeHandler(x)
        self.prop = log.propagate
        log.propagate = False
        log.addHandler(self.h)
        self.level = log.level
        log.setLevel(logging.ERROR)
        return self

    def __exit__(self, *a):
        log = cssutils.log._log
        log.removeHandler(self.h)
        for x in self.old:
            log.addHandler(x)
        log.propagate = self.prop
        log.setLevel(self.level)


def fetcher(url):
    return (None, '')


def merge_signs(toks):
    """'+ 3' and '+3' inside an+b arguments are the same thing"""
    out = []
    for t in toks:
        if out and out[-1] in (('CHAR', '+'), ('CHAR', '-')) and t[0] in ('NUMBER', 'DIMENSION') and t[1][0] not in '+-':
            out[-1] = (t[0], out[-1][1] + t[1])
        else:
            out.append(t)
    return out


_IDENTLIKE = re.compile(r'-?[A-Za-z_][A-Za-z0-9_-]*\Z').match


def nonspace_tokens(text):
    """token kinds and values without white space; 'u+a' - which the CSS 2.1 tokenizer reads as UNICODE-RANGE although in a selector
    it is the two type selectors u and a - is split the way the selector parser reads it, so that 'u + a' written without the
    combinator spacer compares equal (the same split is applied to both sides of every comparison)"""
    toks = list(cssutils.tokenize2.Tokenizer().tokenize(text))
    out = []
    i = 0
    while i < len(toks):
        t = toks[i]
        if t[0] == 'UNICODE-RANGE' and _IDENTLIKE(t[1][2:]):
            rest = t[1][2:]
            if i + 1 < len(toks) and toks[i + 1][0] == 'IDENT':  # (white space would be a token of its own)
                rest += toks[i + 1][1]
                i += 1
            out += [('IDENT', t[1][0]), ('CHAR', '+'), ('IDENT', rest)]
        elif t[0] != 'S':
            out.append((t[0], t[1]))
        i += 1
    return out


def check(case, ctx):
    m = case['model']
    flatten_nested_comments(m['stmts'])
    text = A.render_sheet(m, case['seed'])
    prefs = case['prefs']
    saved_mode = cssutils.log.raiseExceptions
    cssutils.log.raiseExceptions = False
    cssutils.ser.prefs.useDefaults()
    try:
        try:
            d = cssutils.CSSParser(fetcher=fetcher).parseString(text, href='http://example.com/s.css')
            default_out = d.cssText
            default_nodes = []

            def collect0(rules):
                for r in rules:
                    default_nodes.append(r.cssText)
                    if hasattr(r, 'cssRules') and r.type != r.IMPORT_RULE:
                        collect0(r.cssRules)

            collect0(d.cssRules)
            eff = effective_prefs(prefs)
            used = set()
            for r in walk_style_rules(d.cssRules):
                used |= used_uris(r)
            expected = norm_proj(tuple(exp_rules(d.cssRules, eff, used)))
        except Exception as e:  # noqa: BLE001
            raise Violation('crash:default-serialisation:' + frame_sig(e), f'{text[:300]!r}: {e!r}')
        try:
            apply_prefs(prefs)
            out = d.cssText
            if not prefs.get('__minified__'):
                # the constructor is the other documented way to set preferences
                built = cssutils.serialize.Preferences(**{k: v for k, v in prefs.items() if not k.startswith('__')})
                diff = [k for k in prefs if not k.startswith('__') and getattr(built, k) != getattr(cssutils.ser.prefs, k)]
                if diff:
                    raise Violation('prefs:constructor-ignores-value', f'Preferences(**{prefs}) leaves {[(k, getattr(built, k)) for k in diff]}')
            nodes = []

            def collect(rules):
                for r in rules:
                    nodes.append((r, r.cssText))
                    if hasattr(r, 'cssRules') and r.type != r.IMPORT_RULE:
                        collect(r.cssRules)

            collect(d.cssRules)
        except Violation:
            raise
        except Exception as e:  # noqa: BLE001
            raise Violation('crash:serialise:' + frame_sig(e), f'prefs {prefs}: {text[:300]!r}: {e!r}')
        finally:
            cssutils.ser.prefs.useDefaults()
        # parts first: serialising the whole sheet may reset what a part would still see
        try:
            again = [r.cssText for r, _ in nodes]
        except Exception as e:  # noqa: BLE001
            raise Violation('crash:serialise-after-restore:' + frame_sig(e), f'prefs {prefs}: {text[:300]!r}: {e!r}')
        if again != default_nodes:
            i = next(i for i, (x, y) in enumerate(zip(again, default_nodes)) if x != y)
            raise Violation('defaults:not-restored:rule-text', f'prefs {prefs}: {type(nodes[i][0]).__name__}.cssText {again[i]!r}, before {default_nodes[i]!r}')
        if d.cssText != default_out:
            raise Violation('defaults:not-restored', f'prefs {prefs}: {text[:200]!r}')
        for r, t in nodes:
            if not isinstance(t, str):
                raise Violation('output:rule-text-not-a-string', f'prefs {prefs}: {type(r).__name__}.cssText is {t!r} ({text[:200]!r})')
        # well-formed
        with ErrCount() as ec:
            try:
                re_ = cssutils.CSSParser(fetcher=fetcher, validate=False).parseString(out, href='http://example.com/s.css')
                got = norm_proj(P.p_sheet(re_))
            except Exception as e:  # noqa: BLE001
                raise Violation('crash:reparse:' + frame_sig(e), f'prefs {prefs}: output {out[:300]!r}: {e!r}')
        if ec.msgs:
            raise Violation('output:not-well-formed', f'prefs {prefs}: output {out[:400]!r} logs {ec.msgs[:2]}')
        keep_empty = bool(eff['keepEmptyRules'])
        a, b = prune(got, keep_empty), prune(expected, keep_empty)
        if a != b:
            kind = next((k for k in sorted(prefs) if k in CONTENT and prefs[k] != ALLPREFS[k][0]), 'layout')
            raise Violation('effect:' + kind, f'prefs {prefs}: source {text[:300]!r} output {out[:300]!r}: {P.first_diff(a, b)}')
        # layout preferences change white space only
        layout_only = not prefs.get('__minified__') and all(k in LAYOUT and k != 'omitLastSemicolon' for k in prefs)
        if layout_only:
            ta, tb = merge_signs(nonspace_tokens(out.decode(d.encoding))), merge_signs(nonspace_tokens(default_out.decode(d.encoding)))
            if ta != tb:
                i = next((i for i, (x, y) in enumerate(zip(ta, tb)) if x != y), min(len(ta), len(tb)))
                raise Violation('layout:changes-tokens', f'prefs {prefs}: token {i}: {ta[i:i + 3]} vs {tb[i:i + 3]}; output {out[:300]!r}')
        # at-keywords: the spelling of the source (defaultAtKeyword=False) or the normalised one
        def atkeywords(t):
            # (the white space which ends an escape inside a keyword may be written as a blank)
            return [re.sub(r'(\\[0-9a-fA-F]{1,6})(?:\r\n|[ \t\r\n\f])', r'\1 ', v) for n, v in nonspace_tokens(t)
                    if (n.endswith('_SYM') and n != 'CHARSET_SYM') or n == 'ATKEYWORD']

        kws = atkeywords(out.decode(d.encoding))
        if eff['defaultAtKeyword']:
            bad = [v for v in kws if v != ''.join(c.lower() if c.isascii() else c for c in v)]
            if bad:
                raise Violation('effect:defaultAtKeyword:not-normalised', f'prefs {prefs}: {bad[:3]} in output {out[:300]!r}')
        else:
            src = set(atkeywords(text))
            bad = [v for v in kws if v not in src]
            if kws:
                ctx.event('literal-keywords-compared')
            if bad:
                raise Violation('effect:defaultAtKeyword:not-the-literal-keyword', f'prefs {prefs}: {bad[:3]} not among the source spellings '
                                f'{sorted(src)[:8]}; output {out[:300]!r}')
        # href form
        fmt = eff['importHrefFormat']
        if fmt in ('string', 'uri'):
            toks = [t for t in nonspace_tokens(out.decode(d.encoding)) if t[0] != 'COMMENT']
            for i, t in enumerate(toks):
                if t[0] == 'IMPORT_SYM' and i + 1 < len(toks):
                    want = 'STRING' if fmt == 'string' else 'URI'
                    if toks[i + 1][0] != want:
                        raise Violation('effect:importHrefFormat', f'prefs {prefs}: {toks[i:i + 2]}')
        # a DOM reached by accepted edits: every top-level rule of the sheet as written takes the text of its normalised twin;
        # under the same preferences it must then be written like the sheet parsed from the normalised text
        if case.get('edit'):
            try:
                fresh = cssutils.CSSParser(fetcher=fetcher).parseString(default_out, href='http://example.com/s.css')
                edited = cssutils.CSSParser(fetcher=fetcher).parseString(text, href='http://example.com/s.css')
                same = len(fresh.cssRules) == len(edited.cssRules)
                if same:
                    for ra, rb in zip(edited.cssRules, fresh.cssRules):
                        if ra.type != rb.type:
                            same = False
                            break
                        ra.cssText = rb.cssText
                same = same and edited.cssText == fresh.cssText
                if same:
                    apply_prefs(prefs)
                    oa, ob = edited.cssText, fresh.cssText
                    parts_a, parts_b = [r.cssText for r in edited.cssRules], [r.cssText for r in fresh.cssRules]
            except Exception as e:  # noqa: BLE001
                raise Violation('crash:edited:' + frame_sig(e), f'prefs {prefs}: {text[:300]!r}: {e!r}')
            finally:
                cssutils.ser.prefs.useDefaults()
            if same:
                ctx.event('edited-dom-compared')
                if oa != ob or parts_a != parts_b:
                    i = next((i for i, (x, y) in enumerate(zip(parts_a, parts_b)) if x != y), None)
                    raise Violation('edited:differs-from-fresh-parse', f'prefs {prefs}: source {text[:300]!r}: after every rule took its normalised text '
                                    f'{(parts_a[i], parts_b[i]) if i is not None else (oa[:200], ob[:200])}')
            else:
                ctx.event('edited-dom-not-comparable')
        nondefault = [k for k in prefs if prefs.get('__minified__') or prefs[k] != ALLPREFS.get(k, [None])[0]]
        affected = out != default_out
        for k in prefs:
            ctx.event('pref:' + k)
        ctx.case([text, sorted((k, repr(v)) for k, v in prefs.items())], (len(nondefault) >= 2 or prefs.get('__minified__')) and affected,
                 {'prefs': prefs, 'output': out.decode(d.encoding, 'replace')[:300]})
    finally:
        cssutils.ser.prefs.useDefaults()
        cssutils.log.raiseExceptions = saved_mode


# --------------------------------------------------------------------------- variables

VAR_SHEETS = ['@variables { c: red; w: 10px } a { color: var(c); width: var(w); top: var(missing) }',
              '@variables { c: #aabbcc } @media print { b { color: var(c) } } c { margin: var(c) var(c) }',
              '@variables { X: 1px } @variables { y: 2px } a { top: var(x) } b { left: var(y) }']
var_strategy = st.fixed_dictionaries({'sheet': st.integers(0, len(VAR_SHEETS) - 1), 'resolve': st.booleans(), 'normalized': st.booleans(),
                                      'other': prefs_strategy()})


def check_vars(case, ctx):
    saved_mode = cssutils.log.raiseExceptions
    cssutils.log.raiseExceptions = False
    cssutils.ser.prefs.useDefaults()
    try:
        d = cssutils.parseString(VAR_SHEETS[case['sheet']])
        try:
            apply_prefs({k: v for k, v in case['other'].items() if k not in ('resolveVariables', 'normalizedVarNames', 'validOnly')})
            cssutils.ser.prefs.resolveVariables = case['resolve']
            cssutils.ser.prefs.normalizedVarNames = case['normalized']
            out = d.cssText
        except Exception as e:  # noqa: BLE001
            raise Violation('crash:serialise:' + frame_sig(e), f'{case}: {e!r}')
        finally:
            cssutils.ser.prefs.useDefaults()
        text = out.decode('utf-8')
        has_rule = '@variables' in text
        if case['resolve']:
            if has_rule:
                raise Violation('effect:resolveVariables', f'@variables rule kept although resolving: {text!r}')
            toks = nonspace_tokens(text)
            left = [t for i, t in enumerate(toks) if t == ('FUNCTION', 'var(') and toks[i + 1][1].lower() != 'missing']
            if left:
                raise Violation('effect:resolveVariables', f'resolvable reference kept: {text!r}')
            if ('FUNCTION', 'var(') in toks and case['sheet'] != 0:
                raise Violation('effect:resolveVariables', f'reference kept: {text!r}')
        else:
            cssutils.ser.prefs.useDefaults()
            cssutils.ser.prefs.resolveVariables = False
            re_ = cssutils.parseString(out)
            same = re_.cssText
            ref = d.cssText
            cssutils.ser.prefs.useDefaults()
            if nonspace_tokens(same.decode()) != nonspace_tokens(ref.decode()):
                raise Violation('effect:resolveVariables-off-not-lossless', f'{text!r}')
    finally:
        cssutils.ser.prefs.useDefaults()
        cssutils.log.raiseExceptions = saved_mode
    ctx.case(case, True, {'case': case, 'output': out.decode('utf-8', 'replace')})


# --------------------------------------------------------------------------- special preferences: no exception, defaults restore

LADDER = ['a', 'a.x', 'a.x#y', 'a:hover', 'a.x:hover', 'b', 'b.k', 'b#i.k', 'div a', 'p > a.x', 'a, b', 'a.x, b.k']
special_strategy = st.fixed_dictionaries({'model': A.sheet(max_body=3), 'seed': st.integers(0, 2 ** 30),
                                          'indentSpecificities': st.booleans(), 'lineNumbers': st.booleans(), 'other': prefs_strategy(),
                                          'ladder': st.lists(st.sampled_from(LADDER), max_size=5), 'ladder_in_media': st.booleans(),
                                          'parts_under_prefs': st.booleans()})


def _all_rules(rules, out):
    for r in rules:
        out.append(r)
        if hasattr(r, 'cssRules') and r.type != r.IMPORT_RULE:
            _all_rules(r.cssRules, out)
    return out


def check_special(case, ctx):
    saved_mode = cssutils.log.raiseExceptions
    cssutils.log.raiseExceptions = False
    cssutils.ser.prefs.useDefaults()
    what = f'{case["other"]} indentSpecificities={case["indentSpecificities"]} lineNumbers={case["lineNumbers"]}'
    try:
        flatten_nested_comments(case['model']['stmts'])
        text = A.render_sheet(case['model'], case['seed'])
        ladder = '\n'.join('%s { top: %d }' % (sel, i) for i, sel in enumerate(case.get('ladder') or []))
        if ladder and case.get('ladder_in_media'):
            ladder = '@media print {\n%s\n}' % ladder
        d = cssutils.CSSParser(fetcher=fetcher).parseString(text + '\n' + ladder)
        rules = _all_rules(d.cssRules, [])
        default_parts = [r.cssText for r in rules]
        default_out = d.cssText
        try:
            apply_prefs(case['other'])
            cssutils.ser.prefs.indentSpecificities = case['indentSpecificities']
            cssutils.ser.prefs.lineNumbers = case['lineNumbers']
            out = d.cssText
            if case.get('parts_under_prefs', True):
                for r in rules:
                    if not isinstance(r.cssText, str):
                        raise Violation('output:rule-text-not-a-string', f'{what}: {type(r).__name__}')
        except Violation:
            raise
        except Exception as e:  # noqa: BLE001
            raise Violation('crash:serialise-special:' + frame_sig(e), f'{what}: {e!r}')
        finally:
            cssutils.ser.prefs.useDefaults()
        # the special preferences are layout only
        if not case['other'] and not case['lineNumbers']:
            ta, tb = nonspace_tokens(out.decode(d.encoding)), nonspace_tokens(default_out.decode(d.encoding))
            if ta != tb:
                raise Violation('layout:changes-tokens', f'{what}: {out[:300]!r} vs {default_out[:300]!r}')
        # parts first: serialising the whole sheet may reset what a part would still see
        try:
            parts = [r.cssText for r in rules]
        except Exception as e:  # noqa: BLE001
            raise Violation('crash:serialise-after-restore:' + frame_sig(e), f'{what}: {e!r}')
        if parts != default_parts:
            i = next(i for i, (x, y) in enumerate(zip(parts, default_parts)) if x != y)
            raise Violation('defaults:not-restored:rule-text', f'{what}: {type(rules[i]).__name__}.cssText {parts[i]!r}, before {default_parts[i]!r}')
        again = d.cssText
        if again != default_out:
            i = next((i for i, (x, y) in enumerate(zip(again, default_out)) if x != y), min(len(again), len(default_out)))
            raise Violation('defaults:not-restored', f'{what}: '
                            f'at byte {i}: {again[max(0, i - 40):i + 40]!r} vs {default_out[max(0, i - 40):i + 40]!r}; serializer level {cssutils.ser._level}')
    finally:
        cssutils.ser.prefs.useDefaults()
        cssutils.log.raiseExceptions = saved_mode
    if case['indentSpecificities'] and out != default_out:
        ctx.event('indentSpecificities-changed-output')
    ctx.case([text, ladder, case['indentSpecificities'], case['lineNumbers'], sorted(map(str, case['other'].items()))], case['indentSpecificities'] or case['lineNumbers'],
             {'css': (text + ladder)[:300], 'indentSpecificities': case['indentSpecificities'], 'lineNumbers': case['lineNumbers'], 'output': out.decode(d.encoding, 'replace')[:300]})


SUBS = [
    Sub('prefs', check, strategy=case_strategy, quick=2500, thorough=150000, shards_quick=8, budget_quick=120),
    Sub('variables', check_vars, strategy=var_strategy, quick=600, thorough=30000, shards_quick=2),
    Sub('special', check_special, strategy=special_strategy, quick=800, thorough=20000, shards_quick=4),
]



# --------------------------------------------------------------------------- keepAllProperties=False: the effective declarations (exhaustive)


def effective_cases(tier):
    import itertools
    decls = [(n, p) for n in ('left', 'top') for p in ('', '!important')]
    for k in (2, 3, 4) if tier == 'thorough' else (2, 3):
        for combo in itertools.product(range(len(decls)), repeat=k):
            if len({decls[i][0] for i in combo}) < len(combo):  # a name is repeated
                yield {'decls': [list(decls[i]) for i in combo]}


def check_effective(case, ctx):
    decls = case['decls']
    text = 'a { ' + '; '.join(f'{n}: {i + 1}px {p}'.strip() for i, (n, p) in enumerate(decls)) + ' }'
    # the effective declaration of a name: the last important one, else the last one (statement of C10; computed from the case)
    keep = {}
    for i, (n, p) in enumerate(decls):
        cands = [j for j, (m, q) in enumerate(decls) if m == n]
        imp = [j for j in cands if decls[j][1]]
        keep[n] = (imp or cands)[-1]
    expected = [(n, f'{i + 1}px', 'important' if p else '') for i, (n, p) in enumerate(decls) if keep[n] == i]
    ctx.case(text, True, {'text': text})
    saved_mode = cssutils.log.raiseExceptions
    cssutils.log.raiseExceptions = False
    cssutils.ser.prefs.useDefaults()
    try:
        try:
            d = cssutils.parseString(text)
            cssutils.ser.prefs.keepAllProperties = False
            out = d.cssText
            part = d.cssRules[0].style.cssText
            cssutils.ser.prefs.useDefaults()
            got = [(p.name, p.value, p.priority) for p in cssutils.parseString(out).cssRules[0].style.getProperties(all=True)]
            got_part = [(p.name, p.value, p.priority) for p in cssutils.css.CSSStyleDeclaration(cssText=part).getProperties(all=True)]
        except Exception as e:  # noqa: BLE001
            raise Violation('crash:effective:' + frame_sig(e), f'{text!r}: {e!r}')
        if got != expected or got_part != expected:
            raise Violation('effect:keepAllProperties:not-the-effective-declarations',
                            f'{text!r} with keepAllProperties=False is written {out!r} / {part!r}: {got}, effective are {expected}')
    finally:
        cssutils.ser.prefs.useDefaults()
        cssutils.log.raiseExceptions = saved_mode


SUBS.append(Sub('effective', check_effective, enumerate=effective_cases, shards_quick=2, shards_thorough=4))

from vlib.reported import reported_sub  # noqa: E402

SUBS.append(reported_sub('C06'))
