"""C14 — the profile registry's verdicts depend on its contents, not its history."""

import re

from hypothesis import strategies as st

import cssutils
import cssutils.profiles as P
from cssutils.profiles import NoSuchProfileException, Profiles
from vlib.runner import Sub, Violation, lib

PROPERTY = 'C14'
RULE = (
    'Operation sequences (1..9 ops) on a fresh Profiles() instance: addProfile (the caller keeps one dict per profile and hands the same '
    'object in every time; a name may be added again while registered = replaced) / addProfiles of custom profiles '
    '(new properties, redefinition of an existing property, private macros, macros overriding token macros, general '
    'macros, a macro of another built-in profile, and the private macro of another custom profile), re-adding removed '
    'built-in profiles, removeProfile of custom / built-in / unknown names, removeProfile(all=True), defaultProfiles = '
    'None | name | list (names of registered profiles, of profiles registered only later, of removed ones). A reference model (ordered list of (name, raw properties, macros); macro environment = token '
    'macros + general macros + the macros of the registered profiles in order; valid iff some registered profile '
    'defining the property fullmatches) runs in lock-step; after every op validate / validateWithProfile()[0] on a '
    '34-pair battery, knownNames, profiles and propertiesByProfile() must equal the model. '
    'Non-trivial: a removal happens after an addition whose macros overlap macros already in use; distinct by history.'
    ' addProfiles may name profiles that are registered already (replaced by ANOTHER definition with other macro values).'
)
ASSUMPTIONS = [
    'a profile name is never registered twice at the same time; a profile only uses macros it defines or built-in ones (sound domain stated in the design)',
    'the model re-implements macro expansion (iterated textual substitution wrapped in (?:...), fullmatch, re.I) from the Profiles docstrings',
    'defaultProfiles is assigned None, a name or a list of names; a name need not be registered at that moment (it may be added later or have been removed: validateWithProfile documents that case)',
]

CUSTOM = {
    'P_new': ({'x-a': r'{myint}|auto', 'x-b': r'foo|bar'}, {'myint': r'\d+'}),
    'P_redef': ({'color': r'foo|bar', 'x-c': r'{length}'}, None),
    'P_tok': ({'x-d': r'{length}|{int}'}, {'length': r'zzz', 'int': r'yyy'}),
    'P_color': ({'x-e': r'{color}'}, {'color': r'qqq'}),
    'P_other': ({'x-f': r'{absolute-size}'}, {'absolute-size': r'www'}),
    'P_plain': ({'x-g': r'a|b'}, None),
    'P_macro2': ({'x-h': r'{myint}px'}, {'myint': r'[0-9]'}),
}
# other definitions under the same names (for replacement)
ALT = {
    'P_new': ({'x-a': r'{myint}|auto', 'x-b': r'foo|bar'}, {'myint': r'[a-c]+'}),
    'P_color': ({'x-e': r'{color}'}, {'color': r'rrr'}),
    'P_macro2': ({'x-h': r'{myint}px'}, {'myint': r'[0-9][0-9]'}),
    'P_plain': ({'x-g': r'c|d'}, None),
}
BUILTIN_READD = [Profiles.CSS_LEVEL_2, Profiles.CSS3_COLOR, Profiles.CSS3_BOX]
BATTERY = [('color', 'red'), ('color', 'foo'), ('color', 'qqq'), ('color', 'rgba(1,2,3,0.5)'), ('color', 'RED'),
           ('margin-top', '1px'), ('margin-top', 'zzz'), ('margin-top', 'auto'), ('z-index', '1'), ('z-index', 'yyy'),
           ('font-size', 'small'), ('font-size', 'www'), ('font-size', '12px'), ('x-a', '12'), ('x-a', 'auto'),
           ('x-a', '5'), ('x-b', 'foo'), ('x-c', '1px'), ('x-c', 'zzz'), ('x-d', 'zzz'), ('x-d', 'yyy'), ('x-d', '1px'),
           ('x-d', '7'), ('x-e', 'qqq'), ('x-e', 'red'), ('x-f', 'www'), ('x-f', 'small'), ('x-g', 'a'), ('x-h', '5px'),
           ('x-h', '55px'), ('overflow', 'hidden scroll'), ('overflow', 'hidden'), ('unknown-prop', 'x'),
           ('background-color', 'qqq'), ('x-a', 'abc'), ('x-e', 'rrr'), ('color', 'rrr'), ('x-h', '55px'), ('x-g', 'c')]

_MACRO = re.compile(r'{(?P<macro>[a-z][a-z0-9-]*)}')
_CACHE = {}


def expand(pattern, env):
    while _MACRO.search(pattern):
        pattern = _MACRO.sub(lambda m: '(?:%s)' % env[m.group('macro')], pattern)
    return pattern


def matcher(pattern):
    m = _CACHE.get(pattern)
    if m is None:
        m = _CACHE[pattern] = re.compile('^(?:%s)$' % pattern, re.I)
    return m


class RegistryModel:
    def __init__(self):
        self.profiles = []  # (name, props, macros)
        names = [Profiles.CSS_LEVEL_2, Profiles.CSS3_BACKGROUNDS_AND_BORDERS, Profiles.CSS3_BASIC_USER_INTERFACE,
                 Profiles.CSS3_BOX, Profiles.CSS3_COLOR, Profiles.CSS3_FONTS, Profiles.CSS3_FONT_FACE,
                 Profiles.CSS3_PAGED_MEDIA, Profiles.CSS3_TEXT]
        for n in names:
            mac = P.macros[Profiles.CSS3_FONTS] if n == Profiles.CSS3_FONT_FACE else P.macros[n]
            self.profiles.append((n, dict(P.properties[n]), dict(mac or {})))
        self.default = None

    def env(self):
        e = dict(Profiles._TOKEN_MACROS)
        e.update(Profiles._MACROS)
        for _, _, mac in self.profiles:
            e.update(mac)
        return e

    def names(self):
        return [p[0] for p in self.profiles]

    def valid(self, name, value, env=None):
        env = env or self.env()
        for _, props, _ in self.profiles:
            if name in props:
                pat = props[name]
                if callable(pat):
                    if pat(value):
                        return True
                elif matcher(expand(pat, env)).match(value):
                    return True
        return False

    def known(self):
        s = set()
        for _, props, _ in self.profiles:
            s.update(props)
        return s


op = st.one_of(
    st.tuples(st.just('add'), st.sampled_from(sorted(CUSTOM))),
    st.tuples(st.just('add'), st.sampled_from(sorted(CUSTOM))),
    st.tuples(st.just('addmany'), st.lists(st.sampled_from(sorted(CUSTOM)), min_size=1, max_size=3, unique=True)),
    st.tuples(st.just('readd'), st.integers(0, len(BUILTIN_READD) - 1)),
    st.tuples(st.just('remove'), st.sampled_from(sorted(CUSTOM))),
    st.tuples(st.just('remove'), st.sampled_from(sorted(CUSTOM))),
    st.tuples(st.just('remove_builtin'), st.integers(0, len(BUILTIN_READD) - 1)),
    st.tuples(st.just('remove_unknown'), st.sampled_from(['nope', 'CSS Level 9', ''])),
    st.tuples(st.just('remove_all')),
    st.tuples(st.just('default'), st.one_of(st.none(), st.integers(0, 11), st.lists(st.integers(0, 11), min_size=1, max_size=3))),
    # a name (or names) whether registered at that moment or not: it may be registered later, or have been removed
    st.tuples(st.just('default'), st.one_of(st.sampled_from(sorted(CUSTOM) + BUILTIN_READD + [Profiles.CSS3_FONT_FACE, Profiles.CSS3_FONTS]),
                                            st.lists(st.sampled_from(sorted(CUSTOM) + BUILTIN_READD), min_size=1, max_size=3))),
)
strategy = st.lists(op, min_size=1, max_size=9).map(lambda ops: {'ops': [list(o) for o in ops]})


def snapshot(reg):
    with lib('observe'):
        v = [bool(reg.validate(n, val)) for n, val in BATTERY]
        return v, sorted(set(reg.knownNames)), list(reg.profiles)


def compare(reg, model, step):
    env = model.env()
    with lib('observe'):
        for n, val in BATTERY:
            exp = model.valid(n, val, env)
            got = bool(reg.validate(n, val))
            if got != exp:
                raise Violation('model:verdict', f'after {step}: validate({n!r}, {val!r}) = {got}, contents say {exp}; registered {model.names()}')
            r = reg.validateWithProfile(n, val)
            if bool(r[0]) != exp:
                raise Violation('model:verdict-withprofile', f'after {step}: validateWithProfile({n!r}, {val!r}) = {r}, contents say {exp}; default {model.default}')
            if exp and (not r[2] or any(p not in model.names() for p in r[2])):
                raise Violation('model:matching-profile-name', f'after {step}: {r}')
        if set(reg.knownNames) != model.known():
            raise Violation('model:knownNames', f'after {step}: {sorted(set(reg.knownNames) ^ model.known())}')
        if list(reg.profiles) != model.names():
            raise Violation('model:profiles', f'after {step}: {list(reg.profiles)} vs {model.names()}')
        if model.profiles:
            got = sorted(reg.propertiesByProfile())
            exp = sorted(n for _, props, _ in model.profiles for n in props)
            if got != exp:
                raise Violation('model:propertiesByProfile', f'after {step}')


def check(case, ctx):
    saved = cssutils.log.raiseExceptions
    cssutils.log.raiseExceptions = True
    try:
        with lib('init'):
            reg = Profiles(log=cssutils.log)
        model = RegistryModel()
        shared = {}
        compare(reg, model, 'init')
        overlap_added = False
        nontrivial = False
        for k, o in enumerate(case['ops']):
            step = f'op {k} {o!r} (history {case["ops"][:k + 1]!r})'
            kind = o[0]
            if kind == 'add':
                props, mac = CUSTOM[o[1]]
                # the caller keeps ONE dict per profile and hands it in again and again (it must not be changed by the registry)
                sp, sm = shared.setdefault(o[1], (dict(props), dict(mac) if mac else None))
                if o[1] in model.names():
                    if k % 2:
                        ctx.event('skipped:already-registered')
                        continue
                    # the same name again: the profile is replaced, i.e. removed and added
                    ctx.event('add:again-under-the-same-name')
                    with lib('addProfile'):
                        reg.addProfile(o[1], sp, sm)
                    model.profiles = [x for x in model.profiles if x[0] != o[1]]
                    model.profiles.append((o[1], dict(props), dict(mac or {})))
                else:
                    if mac and set(mac) & set(model.env()):
                        overlap_added = True
                    with lib('addProfile'):
                        reg.addProfile(o[1], sp, sm)
                    model.profiles.append((o[1], dict(props), dict(mac or {})))
                if sp != props or (sm or {}) != (mac or {}):
                    raise Violation('add:callers-definition-modified', f'{step}: {o[1]} properties are now {sp!r}')
            elif kind == 'addmany':
                names = list(o[1])
                # a name that is registered already is replaced - by ANOTHER definition of that profile (other macro values)
                defs = {n: (ALT.get(n, CUSTOM[n]) if n in model.names() else CUSTOM[n]) for n in names}
                if any(n in model.names() for n in names):
                    ctx.event('addProfiles:replaces-a-registered-profile')
                env = set(model.env())
                if any(defs[n][1] and set(defs[n][1]) & env for n in names):
                    overlap_added = True
                with lib('addProfiles'):
                    reg.addProfiles([(n, dict(defs[n][0]), dict(defs[n][1]) if defs[n][1] else None) for n in names])
                for n in names:
                    model.profiles = [x for x in model.profiles if x[0] != n]
                for n in names:
                    model.profiles.append((n, dict(defs[n][0]), dict(defs[n][1] or {})))
            elif kind == 'readd':
                n = BUILTIN_READD[o[1]]
                if n in model.names():
                    continue
                with lib('addProfile'):
                    reg.addProfile(n, dict(P.properties[n]), dict(P.macros[n]) if P.macros[n] else None)
                model.profiles.append((n, dict(P.properties[n]), dict(P.macros[n] or {})))
            elif kind in ('remove', 'remove_builtin'):
                n = o[1] if kind == 'remove' else BUILTIN_READD[o[1]]
                before = snapshot(reg)
                if n not in model.names():
                    try:
                        with lib('removeProfile', expect=(NoSuchProfileException,)):
                            reg.removeProfile(n)
                        raise Violation('reject:unknown-profile-removed-silently', step)
                    except NoSuchProfileException:
                        pass
                    if snapshot(reg) != before:
                        raise Violation('reject:registry-changed', step)
                    ctx.event('remove:absent')
                else:
                    if model.default is not None and n in model.default:
                        ctx.event('default-names-removed-profile')
                    with lib('removeProfile'):
                        reg.removeProfile(n)
                    model.profiles = [p for p in model.profiles if p[0] != n]
                    if overlap_added:
                        nontrivial = True
            elif kind == 'remove_unknown':
                before = snapshot(reg)
                try:
                    with lib('removeProfile', expect=(NoSuchProfileException,)):
                        reg.removeProfile(o[1])
                    raise Violation('reject:unknown-profile-removed-silently', step)
                except NoSuchProfileException:
                    pass
                if snapshot(reg) != before:
                    raise Violation('reject:registry-changed', step)
            elif kind == 'remove_all':
                with lib('removeProfile(all)'):
                    reg.removeProfile(all=True)
                model.profiles = []
                if overlap_added:
                    nontrivial = True
            elif kind == 'default':
                names = model.names()
                before_verdicts = snapshot(reg)[0]
                by_name = isinstance(o[1], str) or (isinstance(o[1], list) and all(isinstance(i, str) for i in o[1]))
                if o[1] is None or (not names and not by_name):
                    val = None
                elif isinstance(o[1], int):
                    val = names[o[1] % len(names)]
                elif isinstance(o[1], str):
                    val = o[1]
                elif by_name:
                    val = list(o[1])
                else:
                    val = [names[i % len(names)] for i in o[1]]
                if any(n not in names for n in ([val] if isinstance(val, str) else val or [])):
                    ctx.event('default names an unregistered profile')
                with lib('default'):
                    reg.defaultProfiles = val
                model.default = None if val is None else ([val] if isinstance(val, str) else list(val))
                if snapshot(reg)[0] != before_verdicts:
                    raise Violation('default:changes-validity', step)
            ctx.event('op:' + kind)
            compare(reg, model, step)
        ctx.case(case, nontrivial, case)
    finally:
        cssutils.log.raiseExceptions = saved


SUBS = [
    Sub('registry', check, strategy=strategy, quick=6000, thorough=120000, shards_quick=8, budget_quick=100),
]


from vlib.reported import reported_sub  # noqa: E402

SUBS.append(reported_sub('C14'))
