"""C02 — the parsed DOM is exactly what a well-formed source denotes."""

from hypothesis import strategies as st

import cssutils
from vlib import cssmodel as A
from vlib import project as P
import xml.dom

from vlib.runner import Sub, Violation, frame_sig, lib

PROPERTY = 'C02'
RULE = (
    'Abstract stylesheets (charset, imports in both forms with media and name, namespaces incl. default, style rules '
    'with CSS3 selectors, @media nested up to 3, @page with margin boxes, @font-face, unknown at-rules, comments at '
    'statement and declaration level; values of idents, numbers, dimensions, percentages, strings, URLs, hash colours, '
    'colour functions, nested functions, calc(), unicode-ranges with space/comma/slash separators) are rendered '
    'canonically and in 3 random spellings (white space / line breaks, comments between tokens, letter case of '
    'at-keywords, property names, units, !important, pseudo and function names, quote style, URL form, hex escapes and '
    'simple escapes in normalised names). Oracles: (1) projection of parse(canonical) == projection computed from the '
    'model; (2) every spelling projects like the canonical text; (3) parseComments=False removes exactly the comments; '
    'validate=False changes nothing; (4) with CSSParser(raiseExceptions=True) a spelling raises no DOM exception when the canonical text raises none. Non-trivial: >=2 statement kinds or a declaration with >=2 value components, and '
    'the spelling differs from the canonical text; distinct by (model, spelling).'
)
ASSUMPTIONS = [
    'numbers are generated in canonical form (normalisation is C18), media lists in canonical form (C17)',
    'hash colour and keyword letter case, pseudo-element colon count are part of the model, not of the spelling',
    'cssutils tokenizer / helper.stringvalue / helper.urivalue are used as tools to normalise texts inside projections',
    'comments right before "{" of a style rule and inside url() are not generated',
]


def fetcher(url):
    return (None, '')


def parse(text, **kw):
    p = cssutils.CSSParser(fetcher=fetcher, **kw)
    with lib('parse'):
        return p.parseString(text, href='http://example.com/base/sheet.css')


case_strategy = st.fixed_dictionaries({
    'model': A.sheet(),
    'seeds': st.lists(st.integers(1, 2 ** 30), min_size=3, max_size=3),
})


def check(case, ctx):
    m = case['model']
    canon = A.render_sheet(m, 0)
    exp = A.exp_sheet(m)
    sheet = parse(canon)
    with lib('project'):
        got = P.p_sheet(sheet)
    if got != exp:
        raise Violation('absolute:' + kind_of_diff(got, exp), f'canonical text {canon!r}: {P.first_diff(got, exp)}')
    nt = False
    for seed in case['seeds']:
        text = A.render_sheet(m, seed)
        with lib('project'):
            g = P.p_sheet(parse(text))
        if g != exp:
            raise Violation('spelling:' + kind_of_diff(g, exp), f'spelling {text!r} of {canon!r}: {P.first_diff(g, exp)}')
        if text != canon:
            nt = True
    # options
    text = A.render_sheet(m, case['seeds'][0])
    with lib('project'):
        nocom = P.p_sheet(parse(text, parseComments=False))
    exp_nc = A.exp_sheet(m, with_comments=False)
    if nocom != exp_nc:
        raise Violation('options:parseComments-off', f'{text!r}: {P.first_diff(nocom, exp_nc)}')
    with lib('project'):
        noval = parse(text, validate=False)
        g = P.p_sheet(noval)
        ser_a = noval.cssText
        ser_b = parse(text, validate=True).cssText
    if g != exp:
        raise Violation('options:validate-off-changes-dom', f'{text!r}: {P.first_diff(g, exp)}')
    if ser_a != ser_b:
        raise Violation('options:validate-off-changes-serialisation', f'{text!r}')
    # raising mode: a spelling raises no error the canonical text does not raise
    saved = cssutils.log.raiseExceptions
    cssutils.log.raiseExceptions = True
    try:
        def raised(t):
            try:
                cssutils.CSSParser(fetcher=fetcher, raiseExceptions=True).parseString(t, href='http://example.com/base/sheet.css')
            except xml.dom.DOMException as e:
                return type(e).__name__
            except Exception as e:  # noqa: BLE001
                raise Violation('crash:parse-raising-mode:' + frame_sig(e), f'{t!r}: {e!r}')
            return None

        rc = raised(canon)
        if rc is None:
            rs = raised(text)
            ctx.event('raising-mode-compared')
            if rs is not None:
                raise Violation('spelling:raises-in-raising-mode', f'spelling {text!r} raises {rs}, the canonical text {canon!r} parses')
        else:
            ctx.event('raising-mode:canonical-raises')
    finally:
        cssutils.log.raiseExceptions = saved
    for s in m['stmts']:
        ctx.event('stmt:' + s['k'])
    ctx.case([canon, case['seeds']], nt and A.model_nontrivial(m), {'canonical': canon, 'spelling': text})


def kind_of_diff(got, exp):
    """coarse class of the first difference, used as failure signature"""
    if len(got) != len(exp):
        gk = [x[0] for x in got]
        ek = [x[0] for x in exp]
        missing = [k for k in ek if gk.count(k) < ek.count(k)]
        return 'rule-count:' + (missing[0] if missing else 'extra')
    for g, e in zip(got, exp):
        if g != e:
            if g[0] != e[0]:
                return 'rule-kind:' + e[0]
            return e[0]
    return 'other'


SUBS = [
    Sub('sheets', check, strategy=case_strategy, quick=4000, thorough=200000, shards_quick=8, budget_quick=150),
]


# --------------------------------------------------------------------------- literal pairs (regressions and listed findings)

LITERALS = [
    # tag, spelling, canonical
    ('calc-comment', 'a{width:calc( /*f*/ 1px + 2px)}', 'a{width:calc(1px + 2px)}'),
    ('calc-comment', 'a{width:calc(1px /*f*/ + 2px); top: 0}', 'a{width:calc(1px + 2px); top: 0}'),
    ('margin-box-comment', '@page{@top-left{/* c */ top:0}}', None),
    ('margin-box-calc', '@page{@top-left{width:calc(1px + 1px)}}', None),
    ('nested-atkeyword-case', '@media print { @PAGE { margin: 0 } @Media tv { a { top: 0 } } }', '@media print { @page { margin: 0 } @media tv { a { top: 0 } } }'),
    ('function-slash', 'a{x:f(a/b)}', 'a{x:f(a / b)}'),
    ('calc-after-term', 'a{x:red calc( 1px / 2);top:0}', 'a{x:red calc(1px / 2);top:0}'),
    ('page-pseudo-case', '@page :FIRST {margin:0}', '@page :first {margin:0}'),
    ('margin-keyword-escape', '@page { @top-cent\\65 r { content: "x" } }', '@page { @top-center { content: "x" } }'),
    ('colorfn-case', 'a{color:RGB(1,2,3);top:0}', 'a{color:rgb(1,2,3);top:0}'),
    ('not-case', 'a:NOT(.b){top:0}', 'a:not(.b){top:0}'),
    ('import-expression-first', '@import "x.css" (color);', None),
    # from the defect hunt
    ('url-upper-case-hex-escape', 'a{background:ur\\6C (x.png)} @import ur\\6C (x.css);', 'a{background:url(x.png)} @import url(x.css);'),
    ('simple-escape-in-names', '@namespace s\\vg "urn:x";svg|a{color:red} .z\\oo{top:0} @media p\\rint{b{top:0}}', '@namespace svg "urn:x";svg|a{color:red} .zoo{top:0} @media print{b{top:0}}'),
    ('calc-space-after-operator', 'a{width:calc(1px* 2);top:0} b{top:calc(6px/ 2)}', 'a{width:calc(1px * 2);top:0} b{top:calc(6px / 2)}'),
    ('comment-next-to-combinator', 'a /**/ > b{color:red}', 'a > b{color:red}'),
]


def literal_cases(tier):
    for tag, text, canon in LITERALS:
        yield {'tag': tag, 'text': text, 'canon': canon}


def check_literal(case, ctx):
    ctx.case(case['text'], True, case)
    with lib('project'):
        g = P.p_sheet(parse(case['text']))
    if case['canon'] is None:
        # the construct must simply be kept with its content
        flat = repr(g)
        if case['tag'] == 'margin-box-comment' and "('comment', ' c ')" not in flat:
            raise Violation('literal:margin-box-comment', f'{case["text"]!r} -> {g!r}')
        if case['tag'] == 'margin-box-calc' and 'calc(' not in flat:
            raise Violation('literal:margin-box-calc', f'{case["text"]!r} -> {g!r}')
        if case['tag'] == 'import-expression-first' and not (g and g[0][0] == 'import'):
            raise Violation('literal:import-expression-first', f'{case["text"]!r} -> {g!r}')
        return
    with lib('project'):
        e = P.p_sheet(parse(case['canon']))
    if g != e or not e:
        raise Violation('literal:' + case['tag'], f'{case["text"]!r} vs {case["canon"]!r}: {P.first_diff(g, e)}')


SUBS.append(Sub('literal', check_literal, enumerate=literal_cases, shards_quick=1, shards_thorough=1))


def nocomment_cases(tier):
    for t in ['a{color: blue /*f*/ ,  red; top: 0}', 'a /*x*/ b{margin: 1px /*f*/ 2px}', '@media print /*m*/ , tv { a{top:0} }',
              'a{font: 12px /*a*/ / /*b*/ 1.5 serif}', 'a /*x*/ > /*y*/ b , c{top:0}']:
        yield {'text': t}


def check_nocomment(case, ctx):
    """comment parsing off == on, minus the comments"""
    ctx.case(case['text'], True, case)
    with lib('project'):
        off = P.p_sheet(parse(case['text'], parseComments=False))
        on = P.p_sheet(parse(case['text']), with_comments=False)
    if off != on or not on:
        raise Violation('options:parseComments-off', f'{case["text"]!r}: {P.first_diff(off, on)}')


SUBS.append(Sub('nocomment', check_nocomment, enumerate=nocomment_cases, shards_quick=1, shards_thorough=1))


from vlib.reported import reported_sub  # noqa: E402

SUBS.append(reported_sub('C02'))
