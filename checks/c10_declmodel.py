"""C10 — declaration blocks obey the ordered-multimap-with-cascade model."""

import xml.dom

from hypothesis import strategies as st

import cssutils
from cssutils.css import CSSStyleDeclaration, CSSVariablesDeclaration, Property
from vlib.runner import Sub, Violation, lib

PROPERTY = 'C10'
RULE = (
    'decl: operation sequences (1..14 ops) over setProperty(name,value,priority,replace), setProperty(Property), '
    'removeProperty, style[name]=v|(v,prio), del style[name], DOM-attribute set/del, setProperty(name, "") and '
    'cssText= with names spelled in lower/upper/mixed case and with simple escapes (API) or hex escapes (cssText), '
    'priorities ""/important/!important/!IMPORTANT/None, executed on a CSSStyleDeclaration and on a 40-line reference '
    'model (ordered list of [literal, value, priority]); after every op getProperties(all=True), '
    'getPropertyValue/Priority, length, item, keys, iteration, membership, DOM attributes and the reparsed cssText must '
    'equal the model. vars: the same for CSSVariablesDeclaration (API view vs. serialisation). domnames: every '
    'property name of every built-in profile, exhaustive. Non-trivial (decl): at some point >=2 entries share a '
    'normalised name with different priorities and an update/removal follows; (vars): a name is used in two '
    'spellings; distinct by operation sequence. escaped: deterministic scenarios with hex-escaped and backslash-escaped names and values '
    '(double set + membership + removal, iteration, update versus fresh set, variables set / serialise) against the same map discipline.'
    ' Values also hold characters Python calls white space but CSS calls name characters (NBSP, U+3000, U+2003) at either end.'
)
ASSUMPTIONS = [
    'value canonical forms come from a fixed hand-checked table (spelling -> canonical), not from the library',
    'in the generated histories API name arguments vary by case and simple escapes only; hex escapes and escaped backslashes in names / values passed to the API are the listed findings F10-3..F10-7, probed deterministically by the escaped sub',
    'normalize=False variants of the API are not exercised',
]
EXHAUSTIVE = False

BASE = ['color', 'top', 'margin-top', 'overflow-x', 'x-unknown', 'font-family']
DOM = {'color': 'color', 'top': 'top', 'margin-top': 'marginTop', 'overflow-x': 'overflowX', 'font-family': 'fontFamily'}
# (source spelling, canonical serialisation)
VALUES = [('red', 'red'), ('blue', 'blue'), (' 1px  2px ', '1px 2px'), ('1PX', '1px'), ('a , b', 'a, b'),
          ('+.50em', '+0.5em'), ("'a'", '"a"'), ('url( x )', 'url(x)'), ('1px/2px', '1px/2px'),
          ('0px', '0'), ('-0.50', '-0.5'), ('1px solid red', '1px solid red'), ('inherit', 'inherit'), ('3', '3'),
          # characters Python calls white space but CSS calls name characters
          ('\xa0red', '\xa0red'), ('red\xa0', 'red\xa0'), ('x\u3000', 'x\u3000'), (' \u2003y ', '\u2003y')]


def api_spellings(name):
    out = [name, name.upper(), name.capitalize()]
    # simple escape before a non-hex letter
    for i, ch in enumerate(name):
        if ch.isalpha() and ch not in 'abcdef':
            out.append(name[:i] + '\\' + name[i:])
            break
    return out


def css_spellings(name):
    out = api_spellings(name)
    i = next(i for i, ch in enumerate(name) if ch.isalpha())
    out.append(name[:i] + '\\%x ' % ord(name[i]) + name[i + 1:])
    out.append(name[:i] + '\\0000%X' % ord(name[i].upper()) + name[i + 1:])
    return out


def literal_of(spelling):
    """literal name cssutils documents: token value (hex escapes decoded) lower-cased."""
    out, i = [], 0
    s = spelling
    while i < len(s):
        if s[i] == '\\' and i + 1 < len(s) and s[i + 1] in '0123456789abcdefABCDEF':
            j = i + 1
            while j < len(s) and j - i - 1 < 6 and s[j] in '0123456789abcdefABCDEF':
                j += 1
            out.append(chr(int(s[i + 1:j], 16)))
            if j < len(s) and s[j] == ' ':
                j += 1
            i = j
        else:
            out.append(s[i])
            i += 1
    return ''.join(out).lower()


def norm_of(literal):
    return literal.replace('\\', '')


name_api = st.sampled_from(BASE).flatmap(lambda n: st.sampled_from(api_spellings(n)))
name_css = st.sampled_from(BASE).flatmap(lambda n: st.sampled_from(css_spellings(n)))
value_i = st.integers(0, len(VALUES) - 1)
prio_api = st.sampled_from(['', '', 'important', '!important', '!IMPORTANT', 'IMPORTANT', None])
prio_css = st.sampled_from(['', '', '', ' !important', '!important', ' ! important', ' !IMPORTANT', ' !/**/important'])

decl_item = st.tuples(name_css, value_i, prio_css)
op = st.one_of(
    st.tuples(st.just('set'), name_api, value_i, prio_api, st.booleans()),
    st.tuples(st.just('set'), name_api, value_i, prio_api, st.just(True)),
    st.tuples(st.just('setP'), name_api, value_i, prio_api),
    st.tuples(st.just('remove'), name_api),
    st.tuples(st.just('setitem'), name_api, value_i, st.one_of(st.none(), st.sampled_from(['important', '!important', '']))),
    st.tuples(st.just('delitem'), name_api),
    st.tuples(st.just('setattr'), st.sampled_from(sorted(DOM)), value_i),
    st.tuples(st.just('delattr'), st.sampled_from(sorted(DOM))),
    st.tuples(st.just('setempty'), name_api),
    st.tuples(st.just('cssText'), st.lists(decl_item, max_size=5), st.sampled_from([';', ' ; ', ';\n'])),
)
decl_strategy = st.fixed_dictionaries({
    'init': st.lists(decl_item, max_size=4),
    'ops': st.lists(op, min_size=1, max_size=14),
}).map(lambda d: {'init': [list(x) for x in d['init']], 'ops': [_jsonable(o) for o in d['ops']]})


def _jsonable(o):
    return [list(map(list, x)) if isinstance(x, list) else x for x in o]


class DeclModel:
    def __init__(self):
        self.entries = []  # [literal, value, prio]

    def eff(self, n):
        found = None
        for e in reversed(self.entries):
            if norm_of(e[0]) == n:
                if e[2]:
                    return e
                if found is None:
                    found = e
        return found

    def names(self):
        names = []
        for e in reversed(self.entries):
            n = norm_of(e[0])
            if n not in names:
                names.append(n)
        return list(reversed(names))

    def set(self, spelling, value, prio, replace=True):
        lit = literal_of(spelling)
        n = norm_of(lit)
        p = 'important' if prio else ''
        e = self.eff(n) if replace else None
        if e is not None:
            e[1], e[2] = value, p
        else:
            self.entries.append([lit, value, p])

    def remove(self, spelling):
        n = norm_of(literal_of(spelling))
        e = self.eff(n)
        r = e[1] if e else ''
        self.entries = [x for x in self.entries if norm_of(x[0]) != n]
        return r

    def settext(self, items):
        self.entries = [[literal_of(n), VALUES[v][1], 'important' if 'mportant' in p.lower() else ''] for n, v, p in items]


def render(items, sep=';'):
    return sep.join(f'{n}: {VALUES[v][0]}{p}' for n, v, p in items)


def compare(style, model, step):
    with lib('observe'):
        got = [(p.literalname, p.value, p.priority) for p in style.getProperties(all=True)]
    exp = [tuple(e) for e in model.entries]
    if got != exp:
        raise Violation('model:entries', f'after {step}: library {got} model {exp}')
    names = model.names()
    with lib('observe'):
        if style.length != len(names):
            raise Violation('model:length', f'after {step}: {style.length} vs {names}')
        if list(style.keys()) != names:
            raise Violation('model:keys', f'after {step}: {list(style.keys())} vs {names}')
        items = [style.item(i) for i in range(-len(names) - 1, len(names) + 1)]
        expi = [names[i] if -len(names) <= i < len(names) else '' for i in range(-len(names) - 1, len(names) + 1)]
        if items != expi:
            raise Violation('model:item', f'after {step}: {items} vs {expi}')
        it = [(p.name, p.value, p.priority) for p in style]
        expit = [(n, model.eff(n)[1], model.eff(n)[2]) for n in names]
        if it != expit:
            raise Violation('model:iteration', f'after {step}: {it} vs {expit}')
        eff = [(p.name, p.value, p.priority) for p in style.getProperties()]
        if eff != expit:
            raise Violation('model:getProperties-effective', f'after {step}: {eff} vs {expit}')
        for b in BASE:
            e = model.eff(b)
            for sp in api_spellings(b):
                v, pr, inn = style.getPropertyValue(sp), style.getPropertyPriority(sp), sp in style
                if (v, pr, inn) != ((e[1], e[2], True) if e else ('', '', False)):
                    raise Violation('model:effective', f'after {step}: {sp}: (value, priority, membership) {(v, pr, inn)} vs {e}')
                if style[sp] != (e[1] if e else ''):
                    raise Violation('model:getitem', f'after {step}: {sp}')
                po = style.getProperty(sp)
                if (po is not None) != bool(e) or (e and (po.value, po.priority) != (e[1], e[2])):
                    raise Violation('model:getProperty', f'after {step}: {sp}: {po} vs {e}')
            if b in DOM and getattr(style, DOM[b]) != (e[1] if e else ''):
                raise Violation('model:domattr-get', f'after {step}: {DOM[b]} -> {getattr(style, DOM[b])!r} vs {e}')
        text = style.cssText
        re_ = CSSStyleDeclaration(cssText=text)
        got2 = [(p.literalname, p.value, p.priority) for p in re_.getProperties(all=True)]
    if got2 != exp:
        raise Violation('model:cssText-reparse', f'after {step}: text {text!r} gives {got2}, model {exp}')


def check_decl(case, ctx):
    saved = cssutils.log.raiseExceptions
    cssutils.log.raiseExceptions = True
    try:
        _check_decl(case, ctx)
    finally:
        cssutils.log.raiseExceptions = saved


def _check_decl(case, ctx):
    model = DeclModel()
    with lib('init', expect=()):
        style = CSSStyleDeclaration(cssText=render(case['init']))
    model.settext(case['init'])
    compare(style, model, 'init')
    mixed_seen = False
    nontrivial = False

    def mixed():
        by = {}
        for e in model.entries:
            by.setdefault(norm_of(e[0]), set()).add(e[2])
        return any(len(v) > 1 for v in by.values())

    for k, o in enumerate(case['ops']):
        kind = o[0]
        step = f'op {k} {o!r}'
        ctx.event('op:' + kind)
        with lib('op:' + kind):
            if kind == 'set':
                _, n, v, p, repl = o
                style.setProperty(n, VALUES[v][0], p, replace=repl)
                model.set(n, VALUES[v][1], p, repl)
            elif kind == 'setP':
                _, n, v, p = o
                style.setProperty(Property(n, VALUES[v][0], p or ''))
                model.set(n, VALUES[v][1], p, True)
            elif kind in ('remove', 'delitem', 'setempty'):
                if kind == 'remove':
                    r = style.removeProperty(o[1])
                elif kind == 'setempty':
                    r = style.setProperty(o[1], '')
                else:
                    del style[o[1]]
                    r = None
                er = model.remove(o[1])
                if r is not None and r != er:
                    raise Violation('model:remove-return', f'{step}: returned {r!r}, model {er!r}')
            elif kind == 'setitem':
                _, n, v, p = o
                if p is None:
                    style[n] = VALUES[v][0]
                else:
                    style[n] = (VALUES[v][0], p)
                model.set(n, VALUES[v][1], p, True)
            elif kind == 'setattr':
                setattr(style, DOM[o[1]], VALUES[o[2]][0])
                model.set(o[1], VALUES[o[2]][1], '', True)
            elif kind == 'delattr':
                delattr(style, DOM[o[1]])
                model.remove(o[1])
            elif kind == 'cssText':
                style.cssText = render(o[1], o[2])
                model.settext(o[1])
        compare(style, model, step)
        if mixed_seen and kind != 'cssText':
            nontrivial = True
        if mixed():
            mixed_seen = True
    ctx.event('mixed-priorities' if mixed_seen else 'plain')
    ctx.case(case, nontrivial, case)


# ---------------------------------------------------------------------------
# variables

VNAMES = ['x', 'X', 'my-var', 'My-Var', 'MY-VAR', 'c1', 'C1']
VVALUES = [('1px', '1px'), ('red', 'red'), ('"s"', '"s"'), ('1px  2px', '1px 2px'), ('#FFF', '#FFF'), ('0', '0')]
vitem = st.tuples(st.sampled_from(VNAMES), st.integers(0, len(VVALUES) - 1))
vop = st.one_of(
    st.tuples(st.just('set'), st.sampled_from(VNAMES), st.integers(0, len(VVALUES) - 1)),
    st.tuples(st.just('setitem'), st.sampled_from(VNAMES), st.integers(0, len(VVALUES) - 1)),
    st.tuples(st.just('remove'), st.sampled_from(VNAMES)),
    st.tuples(st.just('delitem'), st.sampled_from(VNAMES)),
    st.tuples(st.just('cssText'), st.lists(vitem, max_size=4)),
)
vars_strategy = st.fixed_dictionaries({
    'init': st.lists(vitem, max_size=3),
    'ops': st.lists(vop, min_size=1, max_size=10),
}).map(lambda d: {'init': [list(x) for x in d['init']], 'ops': [_jsonable(o) for o in d['ops']]})


def vrender(items):
    return '; '.join(f'{n}: {VVALUES[v][0]}' for n, v in items)


def vcompare(decl, model, step):
    with lib('observe'):
        keys = list(decl.keys())
        if sorted(keys) != sorted(model):
            raise Violation('vars:keys', f'after {step}: {keys} vs {model}')
        if decl.length != len(model) or list(decl) != keys:
            raise Violation('vars:length-iteration', f'after {step}: {decl.length} {list(decl)} vs {model}')
        if [decl.item(i) for i in range(len(keys))] != keys or decl.item(len(keys)) != '':
            raise Violation('vars:item', f'after {step}')
        for n in VNAMES:
            e = model.get(n.lower(), '')
            if decl.getVariableValue(n) != e or decl[n] != e or (n in decl) != (n.lower() in model):
                raise Violation('vars:value', f'after {step}: {n}: {decl.getVariableValue(n)!r} vs {e!r}')
        text = decl.cssText
        d2 = CSSVariablesDeclaration(cssText=text)
        listed = {k: d2.getVariableValue(k) for k in d2.keys()}
    if listed != model:
        raise Violation('vars:serialisation-lists-other-variables', f'after {step}: text {text!r} lists {listed}, API reports {model}')
    # each name exactly once in the text
    with lib('observe'):
        toks = [t for t in cssutils.tokenize2.Tokenizer().tokenize(text)]
    names_in_text = []
    for i, t in enumerate(toks):
        nxt = next((u for u in toks[i + 1:] if u[0] not in ('S', 'COMMENT')), None)
        prev = next((u for u in reversed(toks[:i]) if u[0] not in ('S', 'COMMENT')), None)
        if t[0] == 'IDENT' and nxt is not None and nxt[1] == ':' and (prev is None or prev[1] == ';'):
            names_in_text.append(t[1].lower())
    if sorted(names_in_text) != sorted(model):
        raise Violation('vars:serialisation-lists-other-variables', f'after {step}: text {text!r} names {names_in_text}, API {sorted(model)}')


def check_vars(case, ctx):
    saved = cssutils.log.raiseExceptions
    cssutils.log.raiseExceptions = True
    try:
        model = {}
        with lib('init'):
            decl = CSSVariablesDeclaration(cssText=vrender(case['init']))
        for n, v in case['init']:
            model[n.lower()] = VVALUES[v][1]
        vcompare(decl, model, 'init')
        spellings = {}
        for n, _ in case['init']:
            spellings.setdefault(n.lower(), set()).add(n)
        for k, o in enumerate(case['ops']):
            step = f'op {k} {o!r}'
            ctx.event('op:' + o[0])
            with lib('op:' + o[0]):
                if o[0] == 'set':
                    decl.setVariable(o[1], VVALUES[o[2]][0])
                    model[o[1].lower()] = VVALUES[o[2]][1]
                elif o[0] == 'setitem':
                    decl[o[1]] = VVALUES[o[2]][0]
                    model[o[1].lower()] = VVALUES[o[2]][1]
                elif o[0] == 'remove':
                    r = decl.removeVariable(o[1])
                    er = model.pop(o[1].lower(), '')
                    if r != er:
                        raise Violation('vars:remove-return', f'{step}: {r!r} vs {er!r}')
                elif o[0] == 'delitem':
                    del decl[o[1]]
                    model.pop(o[1].lower(), None)
                elif o[0] == 'cssText':
                    decl.cssText = vrender(o[1])
                    model = {}
                    for n, v in o[1]:
                        model[n.lower()] = VVALUES[v][1]
            if o[0] != 'cssText':
                spellings.setdefault(o[1].lower(), set()).add(o[1])
            else:
                for n, _ in o[1]:
                    spellings.setdefault(n.lower(), set()).add(n)
            vcompare(decl, model, step)
        ctx.case(case, any(len(s) > 1 for s in spellings.values()), case)
    finally:
        cssutils.log.raiseExceptions = saved


# ---------------------------------------------------------------------------
# DOM names, exhaustive


def domname_cases(tier):
    import cssutils.profiles as P

    seen = set()
    for g in sorted(P.properties):
        for n in sorted(P.properties[g]):
            if n not in seen:
                seen.add(n)
                yield {'name': n}


def dom_of(name):
    parts = name.split('-')
    return parts[0] + ''.join(p[:1].upper() + p[1:] for p in parts[1:])


def check_domname(case, ctx):
    name = case['name']
    dom = dom_of(name)
    saved = cssutils.log.raiseExceptions
    cssutils.log.raiseExceptions = True
    try:
        with lib('domname'):
            a, b = CSSStyleDeclaration(), CSSStyleDeclaration()
            if not hasattr(a, dom):
                raise Violation('domname:missing-attribute', f'{name} -> {dom}')
            setattr(a, dom, 'inherit')
            b.setProperty(name, 'inherit')
            if a.cssText != b.cssText or a.getPropertyValue(name) != 'inherit':
                raise Violation('domname:set-differs', f'{dom}: {a.cssText!r} vs {b.cssText!r}')
            b.setProperty(name, 'initial')
            a.setProperty(name, 'initial')
            if getattr(a, dom) != 'initial' or getattr(b, dom) != b.getPropertyValue(name):
                raise Violation('domname:get-differs', f'{dom}: {getattr(a, dom)!r}')
            delattr(a, dom)
            b.removeProperty(name)
            if a.cssText != b.cssText or a.length != 0:
                raise Violation('domname:del-differs', f'{dom}: {a.cssText!r} vs {b.cssText!r}')
    finally:
        cssutils.log.raiseExceptions = saved
    ctx.case(name, '-' in name, {'css': name, 'dom': dom})


SUBS = [
    Sub('decl', check_decl, strategy=decl_strategy, quick=6000, thorough=200000, shards_quick=8),
    Sub('vars', check_vars, strategy=vars_strategy, quick=3000, thorough=100000, shards_quick=4),
    Sub('domnames', check_domname, enumerate=domname_cases, shards_quick=2, shards_thorough=2),
]


# --------------------------------------------------------------------------- names and values written with escapes (listed findings; excluded from the generators above)

ESC_NAMES = [r'c\6f lor', r'\63 olor', r'\43 olor', r'colo\72', r'c\\olor', r'to\70']


def escaped_cases(tier):
    for n in ESC_NAMES:
        yield {'kind': 'hex-name', 'name': n}
    yield {'kind': 'iterate-escaped-backslash-name', 'name': r'c\\olor'}
    for v in [r'red\9', r'1\\', r'a\1', r'\31 -']:
        yield {'kind': 'update-vs-fresh', 'value': v}
    for n in [r'a\:b', r'a\ b', r'a\;b', r'\-1', r'\#a']:
        yield {'kind': 'var-set-escaped-name', 'name': n}
        yield {'kind': 'var-serialise-escaped-name', 'name': n}


def _decode_name(n):
    from checks.c18_values import css_unescape

    return css_unescape(n).lower()


def check_escaped(case, ctx):
    saved = cssutils.log.raiseExceptions
    cssutils.log.raiseExceptions = False
    try:
        with lib('escaped', expect=(xml.dom.DOMException,)):
            k = case['kind']
            if k == 'hex-name':
                n, plain = case['name'], _decode_name(case['name'])
                s = CSSStyleDeclaration()
                s.setProperty(n, 'red')
                s.setProperty(n, 'blue')
                entries = [(p.name, p.value) for p in s.getProperties(all=True)]
                if s.keys() != [plain] if hasattr(s, 'keys') else False:
                    raise Violation('escaped:hex-name-not-normalised', f'{n!r}: keys {s.keys()}')
                if entries != [(plain, 'blue')] or n not in s or s[n] != 'blue' or s.removeProperty(n) != 'blue' or s.length:
                    raise Violation('escaped:hex-name-not-normalised', f'setProperty({n!r}) twice: entries {entries}, {n!r} in s: {n in s}, s[{n!r}]={s[n]!r}')
            elif k == 'iterate-escaped-backslash-name':
                s = CSSStyleDeclaration()
                s.setProperty(case['name'], 'red')
                s.setProperty('color', 'blue')
                vals = [getattr(p, 'value', None) for p in s]
                if s.length != 2 or sorted(map(str, vals)) != ['blue', 'red']:
                    raise Violation('escaped:iteration-loses-escaped-backslash-name', f'keys {s.keys()}, iteration yields {vals}')
            elif k == 'update-vs-fresh':
                v = case['value']
                a = CSSStyleDeclaration()
                a.setProperty('color', v)
                b = CSSStyleDeclaration(cssText='color: red')
                b.setProperty('color', v)
                if a.getPropertyValue('color') != b.getPropertyValue('color'):
                    raise Violation('escaped:update-stores-other-value-than-fresh-set', f'{v!r}: fresh {a.getPropertyValue("color")!r}, update {b.getPropertyValue("color")!r}')
            elif k == 'var-set-escaped-name':
                n, plain = case['name'], _decode_name(case['name'])
                d = CSSVariablesDeclaration(cssText=n + ': 1')
                if plain not in d:
                    return
                d[n] = '2'
                if d[plain] != '2':
                    raise Violation('escaped:variable-set-rejects-escaped-name', f'{n!r}: text replacement creates {list(d.keys())} but d[{n!r}] = "2" leaves {d[plain]!r}')
            elif k == 'var-serialise-escaped-name':
                n, plain = case['name'], _decode_name(case['name'])
                d = CSSVariablesDeclaration(cssText=n + ': 1; q: 2')
                api = {x: d[x] for x in d.keys()}
                d2 = CSSVariablesDeclaration(cssText=d.cssText)
                got = {x: d2[x] for x in d2.keys()}
                if got != api:
                    raise Violation('escaped:variables-serialisation-lists-other-variables', f'{n!r}: API {api}, cssText {d.cssText!r} declares {got}')
    finally:
        cssutils.log.raiseExceptions = saved
    ctx.case([case], True, case)


SUBS.append(Sub('escaped', check_escaped, enumerate=escaped_cases, shards_quick=1, shards_thorough=1))


from vlib.reported import reported_sub  # noqa: E402

SUBS.append(reported_sub('C10'))
