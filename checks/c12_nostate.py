"""C12 — no hidden state: history-independent results, global modes restored."""

import logging
import os
import pickle
import sys
import tempfile
import xml.dom

from hypothesis import strategies as st

import cssutils
import cssutils.settings
from vlib.runner import VERIF, HarnessAbort, Sub, Violation, frame_sig

PROPERTY = 'C12'
RULE = (
    'Pairs (history, probe): a history of 1..8 calls drawn from parsing well-formed / malformed / truncated texts with '
    'every parser configuration, raising parsers on malformed input, undecodable bytes and unknown encodings, fetchers '
    'that raise / return garbage, parseFile on a missing file, rejected and accepted DOM edits, serialisation under '
    'changed and restored preferences, csscombine, profile add/remove pairs, reuse of one parser object, a changed global '
    'error mode between constructing and using a parser; explicit configuration steps (preference assignment, addProfile, '
    'defaultProfiles, global error mode, cssutils.settings.set) are part of the configuration, not of the hidden state; a parser object created before such a step must answer like one created after it. Each example runs twice in '
    'forked children: full history + probe battery versus only the configuration steps + probe battery; the battery '
    '(parse+serialise of 17 reference texts, validity flags, 17 malformed texts through a raising parser with exception type, '
    'message, line and column as the result, parseStyle, one DOM edit that must raise and one that must '
    'succeed) must give identical results. Around every parse call the error mode, serializer object and preferences, '
    'profile list and default profiles must be as before, whether it returned or raised; a reused parser must repeat its '
    'result. Parse calls also take a media= argument (valid and invalid), byte input goes through parseString and parseStyle; every '
    'exception a call ends in is KEPT by the harness until the end of the history (a caller may do that: the frames it refers to stay alive); '
    'the battery also parses media=/title= arguments and stand-alone MediaQuery, MediaList, PropertyValue, Property, Selector and '
    'declaration texts. Non-trivial: the history contains a call that ended in an exception, followed by the probe; distinct by history.'
)
ASSUMPTIONS = [
    'explicit assignments to cssutils.ser.prefs, cssutils.profile and cssutils.log.raiseExceptions count as configuration and are replayed in the baseline child',
    'each example runs in a forked child process, so a leak in one example cannot contaminate the next',
    'log output is not part of the compared result',
]

TEXTS = ['a { color: red }', '@media print and (min-width: 10px), tv { a { top: 0 } }', 'a { margin: 1px 2px, 3px/4px "x" }',
         '@import "x.css" print; a b > c { d: e !important }', 'a { color: rgb(1,2,3); width: calc(1px + 2px) }',
         '@page :first { margin: 1cm; @top-left { content: "x" } }', 'a:not(.b)::before, c[d|="e"] { f: url(g.png) }',
         '@namespace p "u"; p|a { top: 0 }', '@font-face { font-family: "F"; src: url(f.woff) }', '@foo bar { baz }',
         'a { -demo-size: 3px; color: red; box-shadow: none; opacity: .5; color: 4 }', '/* c */ a { /* d */ }',
         '@variables { x: 1px } a { width: var(x) }', 'a { x: f(1, g(2)) u+0-7f "s" }', 'a.x { top: 0 }', 'a { left: 0 }', 'a.x#y { top: 0 } a { top: 1px }']
MALFORMED = ['a { color: red', 'a { (x) y; b: c }', '@media print and { a {} }', 'a,,b { c: d }', '@import;', 'a { b: rgb(1,2 }',
             '@charset ', 'a { x: y !important @foo }', 'a:not(a b) {}', '@page :x: {}', 'screen and, print', '@media {a{}}',
             'a { b: "c', 'a { b: url(', '}{', '@namespace p "u"; q|a {}', 'a { color: red } @import "late.css";']
DX_TEXTS = ['a {filter: progid:DXImageTransform.Microsoft.gradient(startColorStr=#111, EndColorStr=#222)}',
            'a { top: 0; filter: progid:DXImageTransform.Microsoft.Alpha(opacity=50); left: 0 }']
PREFS = [('keepComments', False), ('omitLeadingZero', True), ('resolveVariables', False), ('indent', '\t'), ('keepEmptyRules', True),
         ('defaultAtKeyword', True), ('minimizeColorHash', False), ('keepAllProperties', False), ('lineSeparator', ''),
         ('indentSpecificities', True), ('indentSpecificities', True)]
PROFILE = ('demo profile', {'-demo-size': '{num}px', 'x-demo': '{demo-macro}'}, {'demo-macro': 'a|b'})
EDITS_BAD = ['mediaText:print print', 'insertRule:@import "x";:1', 'insertRule:a{:0', 'deleteRule:99', 'selectorText:a,,b', 'mediaText:print and',
             'setProperty:color:(', 'namespace-del:zz', 'styleText:a:(', 'property-priority:x']
EDITS_OK = ['insertRule:b{top:0}:0', 'selectorText:x y', 'setProperty:color:blue', 'removeProperty:color', 'encoding:ascii']


CAPTURE_DOCS = ['<html><head><style type="text/css">a { top: 0 }</style><link rel="stylesheet" type="text/css" href="x.css"></head></html>',
                '<html><head><style type="text/css">b { left: 0 }</style></head><style type="text/css">unfinished {',
                '<html><head><title>none</title></head><body><p>no sheet</p></body></html>',
                '<html><head><link rel="stylesheet" type="text/css" href="x.css" media="print"><style type="text/css"><!-- c { top: 0 } --></style><script>if (a<b) {}']


class FetchErr(Exception):
    pass


def fetch_raise(url):
    raise FetchErr('boom ' + url)


def fetch_garbage(url):
    return 42


def fetch_cycle(url):
    return (None, '@import "%s"; z { top: 0 }' % url)


op = st.one_of(
    st.tuples(st.just('parse'), st.sampled_from(TEXTS + MALFORMED), st.booleans(), st.booleans(), st.booleans()),
    st.tuples(st.just('parse'), st.sampled_from(MALFORMED), st.booleans(), st.booleans(), st.just(True)),
    st.tuples(st.just('parseStyle'), st.sampled_from(['color: red', 'a: (', 'b: c !x', 'margin: 1px 2px']), st.booleans()),
    st.tuples(st.just('bytes'), st.sampled_from(['ff', 'c3', 'fffe41', '40636861727365742022782d6e6f6e65223b61', 'e9']),
              st.sampled_from([None, 'utf-8', 'x-none', 'ascii'])),
    st.tuples(st.just('bytes-style'), st.sampled_from(['ff', 'c3', '636f6e74656e743a2022e422', 'e9', '746f703a2030']),
              st.sampled_from(['utf-8', 'x-none', 'ascii', 'utf-16']), st.booleans()),
    st.tuples(st.just('capture'), st.lists(st.integers(0, 3), min_size=2, max_size=3)),
    st.tuples(st.just('fetcher'), st.sampled_from(['raise', 'garbage', 'cycle']), st.booleans()),
    st.tuples(st.just('parseFile-missing'), st.booleans()),
    st.tuples(st.just('edit'), st.sampled_from(EDITS_BAD + EDITS_OK)),
    st.tuples(st.just('serialise-prefs'), st.integers(0, len(PREFS) - 1), st.booleans()),
    st.tuples(st.just('csscombine'), st.booleans(), st.booleans()),
    st.tuples(st.just('profile-add-remove')),
    st.tuples(st.just('reuse'), st.sampled_from(TEXTS + MALFORMED), st.integers(2, 3), st.booleans()),
    st.tuples(st.just('mode-between'), st.booleans(), st.sampled_from(TEXTS[:3] + MALFORMED[:3])),
    # configuration steps
    st.tuples(st.just('cfg:pref'), st.integers(0, len(PREFS) - 1)),
    st.tuples(st.just('cfg:addProfile')),
    st.tuples(st.just('cfg:defaultProfiles'), st.sampled_from([None, 'CSS Level 2.1', 'CSS Color Module Level 3'])),
    st.tuples(st.just('cfg:mode'), st.booleans()),
    # a configuration step between creating a parser object and using it: the old object must answer like a new one
    st.tuples(st.just('cfg:across'), st.sampled_from(['dx', 'dx', 'pref', 'addProfile', 'defaultProfiles']), st.integers(0, len(PREFS) - 1),
              st.sampled_from(TEXTS[:6] + DX_TEXTS + DX_TEXTS)),
)
strategy = st.lists(op, min_size=1, max_size=8).map(lambda ops: {'ops': [list(o) for o in ops]})


def global_state():
    p = cssutils.profile
    return (cssutils.log.raiseExceptions, id(cssutils.ser), tuple(sorted((k, repr(v)) for k, v in vars(cssutils.ser.prefs).items())),
            tuple(p.profiles), p._defaultProfiles if not isinstance(p._defaultProfiles, list) else tuple(p._defaultProfiles))


class Leak(Exception):
    pass


KEPT = []


def guarded_parse(fn, what):
    """run one parse call; the global state must be the same afterwards, whether it returns or raises"""
    before = global_state()
    exc = None
    try:
        res = fn()
    except RecursionError as e:
        exc, res = e, None
    except Exception as e:  # noqa: BLE001
        exc, res = e, None
    if exc is not None:
        # a caller may keep the exception (and with it the frames it refers to) for as long as it likes
        KEPT.append(exc)
    after = global_state()
    if after != before:
        names = ['error mode', 'serializer object', 'serializer preferences', 'profiles', 'default profiles']
        diff = [n for n, a, b in zip(names, before, after) if a != b]
        how = 'raised ' + type(exc).__name__ if exc is not None else 'returned'
        raise Leak(f'state:{"/".join(diff).replace(" ", "-")}:after-call-that-{"raised" if exc else "returned"}|{what} {how}: {diff} changed: '
                   f'{[(a, b) for a, b in zip(before, after) if a != b][:2]!r}'[:900])
    return res, exc


def run_op(o, events):
    kind = o[0]
    if kind == 'parse':
        _, text, comments, validate, raising = o
        p = cssutils.CSSParser(parseComments=comments, validate=validate, raiseExceptions=raising, fetcher=lambda u: (None, ''))
        media = [None, 'print', 'screen 3d', 'tv, (color'][len(text) % 4]
        res, exc = guarded_parse(lambda: p.parseString(text, media=media).cssText, f'parseString({text!r}, media={media!r}, raising={raising})')
        if exc is not None:
            events.append('exc')
            if not isinstance(exc, xml.dom.DOMException) or not raising:
                raise Leak(f'crash:parse:{frame_sig(exc)}|{text!r}: {exc!r}')
    elif kind == 'parseStyle':
        p = cssutils.CSSParser(raiseExceptions=o[2])
        res, exc = guarded_parse(lambda: p.parseStyle(o[1]).cssText, f'parseStyle({o[1]!r}, raising={o[2]})')
        if exc is not None:
            events.append('exc')
    elif kind == 'bytes':
        data = bytes.fromhex(o[1])
        res, exc = guarded_parse(lambda: cssutils.CSSParser().parseString(data, encoding=o[2]).cssText, f'parseString({data!r}, encoding={o[2]})')
        if exc is not None:
            events.append('exc')
            if not isinstance(exc, (UnicodeDecodeError, LookupError)):
                raise Leak(f'crash:bytes:{frame_sig(exc)}|{data!r}: {exc!r}')
    elif kind == 'bytes-style':
        data = bytes.fromhex(o[1])
        p = cssutils.CSSParser(raiseExceptions=o[3])
        res, exc = guarded_parse(lambda: p.parseStyle(data, encoding=o[2]).cssText, f'parseStyle({data!r}, encoding={o[2]}, raising={o[3]})')
        if exc is not None:
            events.append('exc')
            if not isinstance(exc, (UnicodeDecodeError, LookupError, xml.dom.DOMException)):
                raise Leak(f'crash:bytes-style:{frame_sig(exc)}|{data!r}: {exc!r}')
    elif kind == 'capture':
        # one CSSCapture object used for several documents: the last answer is that of a fresh object
        import contextlib
        import io
        import shutil
        from cssutils.script import CSSCapture

        work = tempfile.mkdtemp(prefix='c12-', dir=os.path.join(VERIF, '.work'))
        try:
            for i, doc in enumerate(CAPTURE_DOCS):
                with open(os.path.join(work, 'd%d.html' % i), 'w') as f:
                    f.write(doc)
            with open(os.path.join(work, 'x.css'), 'w') as f:
                f.write('x { color: red }')
            urls = ['file://' + os.path.join(work, 'd%d.html' % i) for i in o[1]]
            with contextlib.redirect_stdout(io.StringIO()):
                reused = CSSCapture(defaultloglevel=logging.FATAL)
                for u in urls:
                    got = [sh.cssText for sh in reused.capture(u)]
                fresh = [sh.cssText for sh in CSSCapture(defaultloglevel=logging.FATAL).capture(urls[-1])]
                # saving what was captured (plain or minified) is a matter of that call
                state = global_state()
                reused.saveto(os.path.join(work, 'out'), minified=bool(len(o[1]) % 2))
                if global_state() != state:
                    raise Leak(f'state:serializer-preferences:after-saveto|CSSCapture.saveto(minified={bool(len(o[1]) % 2)}) changed the library-wide state')
        finally:
            shutil.rmtree(work, ignore_errors=True)
        if got != fresh:
            raise Leak(f'reuse:capture-object-gives-different-results|documents {o[1]}: the reused CSSCapture reports {got!r} for the last one, a fresh one {fresh!r}'[:900])
    elif kind == 'fetcher':
        f = {'raise': fetch_raise, 'garbage': fetch_garbage, 'cycle': fetch_cycle}[o[1]]
        p = cssutils.CSSParser(fetcher=f, raiseExceptions=o[2])
        lim = sys.getrecursionlimit()
        sys.setrecursionlimit(400)
        try:
            res, exc = guarded_parse(lambda: p.parseString('@import "i.css"; a { top: 0 }', href='http://h/m.css').cssText,
                                     f'parseString(@import, fetcher={o[1]}, raising={o[2]})')
        finally:
            sys.setrecursionlimit(lim)
        if exc is not None:
            events.append('exc')
    elif kind == 'parseFile-missing':
        p = cssutils.CSSParser(raiseExceptions=o[1])
        res, exc = guarded_parse(lambda: p.parseFile(os.path.join(tempfile.gettempdir(), 'verif-no-such-file.css')), 'parseFile(missing)')
        if exc is not None:
            events.append('exc')
    elif kind == 'edit':
        sheet = cssutils.parseString('@namespace p "u"; a { color: red } @media print { b { top: 0 } }')
        e = o[1].split(':')
        try:
            if e[0] == 'insertRule':
                sheet.insertRule(':'.join(e[1:-1]), int(e[-1]))
            elif e[0] == 'deleteRule':
                sheet.deleteRule(int(e[1]))
            elif e[0] == 'selectorText':
                sheet.cssRules[1].selectorText = e[1]
            elif e[0] == 'mediaText':
                sheet.cssRules[2].media.mediaText = e[1]
            elif e[0] == 'setProperty':
                sheet.cssRules[1].style.setProperty(e[1], e[2])
            elif e[0] == 'removeProperty':
                sheet.cssRules[1].style.removeProperty(e[1])
            elif e[0] == 'namespace-del':
                del sheet.namespaces[e[1]]
            elif e[0] == 'styleText':
                sheet.cssRules[1].style.cssText = ':'.join(e[1:])
            elif e[0] == 'property-priority':
                sheet.cssRules[1].style.getProperties()[0].priority = e[1]
            elif e[0] == 'encoding':
                sheet.encoding = e[1]
            sheet.cssText
        except (xml.dom.DOMException, IndexError):
            events.append('exc')
    elif kind == 'serialise-prefs':
        name, val = PREFS[o[1]]
        old = getattr(cssutils.ser.prefs, name)
        setattr(cssutils.ser.prefs, name, val)
        try:
            cssutils.parseString(TEXTS[1] + TEXTS[12]).cssText
        finally:
            setattr(cssutils.ser.prefs, name, old)
    elif kind == 'csscombine':
        from cssutils.script import csscombine

        before = global_state()
        csscombine(cssText='@variables { x: 1px } a { top: var(x) }', minify=o[1], resolveVariables=o[2])
        after = global_state()
        if before != after:
            diff = [n for n, a, b in zip(['error mode', 'serializer object', 'serializer preferences', 'profiles', 'default profiles'], before, after) if a != b]
            raise Leak(f'state:csscombine-leaves-{"/".join(diff).replace(" ", "-")}|csscombine(minify={o[1]}, resolveVariables={o[2]})')
    elif kind == 'profile-add-remove':
        cssutils.profile.addProfile('tmp profile', {'x-tmp': '{int}|{tmpm}'}, {'tmpm': 'q'})
        cssutils.parseString('a { x-tmp: 3; color: red }').cssText
        cssutils.profile.removeProfile('tmp profile')
    elif kind == 'reuse':
        p = cssutils.CSSParser(raiseExceptions=o[3], fetcher=lambda u: (None, ''))
        outs = []
        for _ in range(o[2]):
            res, exc = guarded_parse(lambda: p.parseString(o[1]).cssText, f'reused parser on {o[1]!r}')
            outs.append((res, type(exc).__name__ if exc else None, str(exc) if exc else None))
            if exc is not None:
                events.append('exc')
        if any(x != outs[0] for x in outs[1:]):
            raise Leak(f'reuse:parser-object-gives-different-results|{o[1]!r}: {outs!r}'[:900])
    elif kind == 'mode-between':
        old = cssutils.log.raiseExceptions
        p = cssutils.CSSParser(fetcher=lambda u: (None, ''))
        cssutils.log.raiseExceptions = o[1]
        try:
            res, exc = guarded_parse(lambda: p.parseString(o[2]).cssText, f'parser built under mode {old}, used under mode {o[1]}')
        finally:
            cssutils.log.raiseExceptions = old
    elif kind == 'cfg:pref':
        name, val = PREFS[o[1]]
        setattr(cssutils.ser.prefs, name, val)
    elif kind == 'cfg:addProfile':
        if PROFILE[0] not in cssutils.profile.profiles:
            cssutils.profile.addProfile(*PROFILE)
    elif kind == 'cfg:defaultProfiles':
        cssutils.profile.defaultProfiles = o[1]
    elif kind == 'cfg:mode':
        cssutils.log.raiseExceptions = o[1]
    elif kind == 'cfg:across':
        p_old = cssutils.CSSParser(fetcher=lambda u: (None, ''))
        guarded_parse(lambda: p_old.parseString('b {top: 0}').cssText, 'parser before the configuration step')
        if o[1] == 'dx':
            cssutils.settings.set('DXImageTransform.Microsoft', True)
        elif o[1] == 'pref':
            name, val = PREFS[o[2]]
            setattr(cssutils.ser.prefs, name, val)
        elif o[1] == 'addProfile':
            if PROFILE[0] not in cssutils.profile.profiles:
                cssutils.profile.addProfile(*PROFILE)
        else:
            cssutils.profile.defaultProfiles = 'CSS Level 2.1'
        p_new = cssutils.CSSParser(fetcher=lambda u: (None, ''))
        outs = []
        for p in (p_old, p_new):
            res, exc = guarded_parse(lambda: (lambda sh: (sh.cssText, [r.valid for r in sh.cssRules if hasattr(r, 'valid')]))(p.parseString(o[3])),
                                     'parser across a configuration step')
            outs.append((res, type(exc).__name__ if exc else None))
        events.append('across:' + o[1])
        if outs[0] != outs[1]:
            raise Leak(f'across:parser-created-before-a-configuration-step-differs|{o[1]} then {o[3]!r}: old {outs[0]!r} new {outs[1]!r}'[:900])
    else:
        raise HarnessAbort('unknown op ' + kind)


def battery():
    out = []
    mode = cssutils.log.raiseExceptions
    # parts serialised on their own, before anything else is serialised here: what they give must not depend on what the
    # history serialised
    try:
        sh = cssutils.parseString('a.x { top: 0 } a { left: 0 } @media print { a.x#y { right: 0 } a { top: 0 } }')
        out.append(('parts', sh.cssRules[0].cssText, sh.cssRules[2].cssRules[0].cssText, sh.cssRules[2].cssText, sh.cssRules[1].cssText,
                    sh.cssRules[0].style.cssText, sh.cssRules[0].selectorText))
    except Exception as e:  # noqa: BLE001
        out.append(('parts', 'EXC', type(e).__name__, str(e)[:200]))
    for t in TEXTS:
        try:
            s = cssutils.CSSParser(fetcher=lambda u: (None, '')).parseString(t)
            flags = []
            for r in s.cssRules:
                if r.type == r.STYLE_RULE:
                    flags.append(tuple((p.name, p.valid) for p in r.style.getProperties(all=True)))
            out.append((s.cssText, tuple(flags), s.valid if hasattr(s, 'valid') else None))
        except Exception as e:  # noqa: BLE001
            out.append(('EXC', type(e).__name__, str(e)[:200], getattr(e, 'line', None), getattr(e, 'col', None)))
    # a raising parser: the exception (type, message, position) is the result of the call
    # texts whose rejection carries no position come first: nothing in this battery has set one yet
    for t in [', { top: 0 }', 'a { x: y ! }', '@media { a { top: 0 } }', 'a|b { top: 0 }'] + MALFORMED:
        try:
            cssutils.CSSParser(raiseExceptions=True, fetcher=lambda u: (None, '')).parseString(t)
            out.append(('accepted', t))
        except Exception as e:  # noqa: BLE001
            out.append(('EXC', type(e).__name__, str(e)[:200], getattr(e, 'line', None), getattr(e, 'col', None)))
    try:
        out.append(cssutils.parseStyle('color: red; top: 1px !important; x: (').cssText)
    except Exception as e:  # noqa: BLE001
        out.append(('EXC', type(e).__name__))
    # DOM edits behave according to the *current* explicit error mode
    sheet = cssutils.parseString('a { color: red }')
    try:
        sheet.insertRule('@import "x";', 1)
        out.append('import-accepted')
    except xml.dom.DOMException as e:
        out.append(('rejected', type(e).__name__))
    sheet.cssRules[0].style.setProperty('top', '0')
    out.append(sheet.cssText)
    # arguments and stand-alone objects that are parsed from their own small texts
    for label, fn in (
        ('media=', lambda: cssutils.parseString('a { top: 0 }', media='print').media.mediaText),
        ('title=', lambda: cssutils.parseString('@page { @top-left { content: "x" } }', media='tv, print', title='t').media.length),
        ('MediaQuery', lambda: cssutils.stylesheets.MediaQuery('print and (color)').mediaText),
        ('MediaList', lambda: cssutils.stylesheets.MediaList('tv, print').mediaText),
        ('PropertyValue', lambda: cssutils.css.PropertyValue('1px rgb(1,2,3) "s"').cssText),
        ('Property', lambda: cssutils.css.Property('margin', '0 auto', 'important').cssText),
        ('Selector', lambda: cssutils.css.Selector('a > b:not(.c)').selectorText),
        ('style.cssText=', lambda: cssutils.css.CSSStyleDeclaration(cssText='top: 0; left: 1px').cssText),
        ('media=', lambda: cssutils.parseString('@page { margin: 0; @top-left { content: "x" } } b { top: 0 }', media='screen').media.mediaText),
    ):
        try:
            out.append((label, fn()))
        except Exception as e:  # noqa: BLE001
            out.append((label, 'EXC', type(e).__name__, str(e)[:200]))
    out.append(('validate', cssutils.profile.validate('color', 'red'), cssutils.profile.validateWithProfile('opacity', '.5')))
    out.append(('mode', cssutils.log.raiseExceptions == mode))
    return out


def in_child(fn):
    r, w = os.pipe()
    pid = os.fork()
    if pid == 0:
        os.close(r)
        try:
            try:
                res = ('ok', fn())
            except Leak as e:
                res = ('leak', str(e))
            except BaseException as e:  # noqa: BLE001
                import traceback

                res = ('harness', traceback.format_exc()[-1500:])
            with os.fdopen(w, 'wb') as f:
                pickle.dump(res, f)
        finally:
            os._exit(0)
    os.close(w)
    with os.fdopen(r, 'rb') as f:
        data = f.read()
    os.waitpid(pid, 0)
    if not data:
        raise HarnessAbort('child died without result')
    return pickle.loads(data)


def check(case, ctx):
    ops = case['ops']

    def full():
        events = []
        for o in ops:
            run_op(o, events)
        return battery(), events

    def config_only():
        events = []
        for o in ops:
            if o[0].startswith('cfg:'):
                run_op(o, events)
        return battery(), events

    a = in_child(full)
    if a[0] == 'leak':
        sig, _, msg = a[1].partition('|')
        raise Violation(sig, f'{msg} (history {ops!r})'[:1200])
    if a[0] == 'harness':
        raise HarnessAbort(a[1])
    b = in_child(config_only)
    if b[0] != 'ok':
        raise HarnessAbort(str(b))
    (ra, ev), (rb, _) = a[1], b[1]
    if ra != rb:
        idx = next(i for i, (x, y) in enumerate(zip(ra, rb)) if x != y)
        raise Violation('history:probe-result-differs', f'after history {ops!r}: probe item {idx}: {ra[idx]!r} versus {rb[idx]!r} without the history'[:1500])
    for o in ops:
        ctx.event('op:' + o[0])
    ctx.case(ops, 'exc' in ev, {'history': ops})


SUBS = [
    Sub('history', check, strategy=strategy, quick=500, thorough=60000, shards_quick=8, budget_quick=60),
]


from vlib.reported import reported_sub  # noqa: E402

SUBS.append(reported_sub('C12'))
