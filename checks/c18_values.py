"""C18 — value normalisation never changes what a value denotes."""

import re
import xml.dom
from fractions import Fraction

from hypothesis import strategies as st

import cssutils
from cssutils.css import ColorValue, DimensionValue, PropertyValue, URIValue
from vlib.runner import Sub, Violation, lib

PROPERTY = 'C18'
RULE = (
    'number: decimal literals (sign in {"", +, -}; integer digits with leading zeros or none; 0..6 fraction digits with '
    'trailing zeros; up to 15 significant digits) x every CSS unit in lower/upper/mixed case, %, none and unknown units x '
    'omitLeadingZero; oracle = exact Fraction arithmetic on the written literal, unit, sign, no redundant zeros, typed '
    'accessors. hash: all 16^3 short hashes and a stratified sample (thorough: all 16^6) of long hashes x '
    'minimizeColorHash; colour functions rgb/rgba/hsl/hsla with integer and percentage arguments, any letter case; '
    'channels recomputed by own formulas (HSL per CSS3), serialisation re-read gives the same channels. keyword: the 17 '
    'CSS 2.1 colours + transparent against a hand-written table, every other keyword for self-consistency. text: strings '
    'and URLs over printable ASCII, both quotes, parentheses, white space incl. CR/LF/FF/TAB, non-ASCII, written with '
    'either quote, hex escapes and escaped quotes; content must survive parse -> serialise -> parse and equal the typed '
    'accessor. list: component lists with space/comma/slash separators keep order and separators under all spacer '
    'preferences. pairs: strings and quoted URLs whose content holds backslashes written as escaped pairs (0-3 of them at the very '
    'end, next to quotes, spaces, digits): an independent CSS string decoder applied to the written token must give the content of '
    'the source token; the written token is a fixpoint and survives inside a sheet. Integers of up to 25 digits are exact. '
    'Non-trivial: number with fraction and (leading-zero omission, sign or trailing zeros); colour in '
    'function form; text containing quote, parenthesis or white space; distinct by source literal.'
    ' Every number literal is also written as an argument of calc(), f() and max(): value and unit (also of a zero length) must be kept.'
    ' pynumber: Python ints (to 25 digits) and floats with at most 6 decimals given through PropertyValue(n), Property(name, n), setProperty(name, n) '
    'and DimensionValue.value = n (on literals with and without explicit sign): the written text denotes exactly that number and keeps the unit.'
)
ASSUMPTIONS = [
    'exactness is asserted for literals with <= 15 significant digits (IEEE double) and <= 6 fraction digits',
    'rgb percentages and HSL conversions are compared with a tolerance of 1 per channel (rounding mode unspecified)',
    'string/URL content does not contain the backslash character itself (decoded \\5c is re-interpreted: listed finding F18-2) nor control characters other than TAB/LF/CR/FF',
    'keyword and hash letter case is not changed by normalisation (and not asserted to be)',
]

LENGTH_UNITS = ['cm', 'mm', 'in', 'px', 'pc', 'pt', 'em', 'ex']
UNITS = LENGTH_UNITS + ['deg', 'rad', 'grad', 'ms', 's', 'hz', 'khz', 'dpi', 'dpcm', 'rem', 'vw', 'vh', 'fr', 'x', 'foo']


@st.composite
def number_case(draw):
    sign = draw(st.sampled_from(['', '', '+', '-']))
    lead = draw(st.sampled_from(['', '', '0', '00']))
    # integers of any magnitude are exact (Python int); beyond 2**53 a detour through a double would show
    ndig = draw(st.integers(0, 12)) if draw(st.integers(0, 4)) else draw(st.integers(13, 25))
    intpart = draw(st.text('0123456789', min_size=ndig, max_size=ndig))
    nfrac = draw(st.integers(0, 6))
    frac = draw(st.text('0123456789', min_size=nfrac, max_size=nfrac))
    if draw(st.integers(0, 3)) == 0 and frac:
        frac = frac.rstrip('0') + '0' * draw(st.integers(1, 2))
        frac = frac[:6]
    if draw(st.integers(0, 5)) == 0:
        intpart = ''
        lead = draw(st.sampled_from(['', '0']))
    ip = lead + intpart
    if not ip and not frac:
        ip = '0'
    unit = draw(st.sampled_from(['', '', '%'] + UNITS + LENGTH_UNITS))
    c = draw(st.integers(0, 3))
    unit = unit if c < 2 else (unit.upper() if c == 2 else unit.capitalize())
    if frac and int(ip or '0') >= 2 ** 33:
        ip = ip[-9:]  # region of listed finding F18-3 ('%f' noise), probed by the bignum sub
    lit = sign + ip + ('.' + frac if frac else '') + unit
    return {'lit': lit, 'omit': draw(st.booleans())}


_NUM = re.compile(r'^([+-]?)(\d*)(?:\.(\d+))?(%|[a-zA-Z]*)$')


def frac_of(lit):
    m = _NUM.match(lit)
    if not m or (not m.group(2) and not m.group(3)):
        return None
    sign, ip, fp, unit = m.groups()
    val = Fraction(int(ip or '0')) + (Fraction(int(fp), 10 ** len(fp)) if fp else 0)
    if sign == '-':
        val = -val
    return sign, ip, fp or '', unit, val


class Prefs:
    def __init__(self, **kw):
        self.kw = kw

    def __enter__(self):
        self.saved = {k: getattr(cssutils.ser.prefs, k) for k in self.kw}
        for k, v in self.kw.items():
            setattr(cssutils.ser.prefs, k, v)

    def __exit__(self, *a):
        for k, v in self.saved.items():
            setattr(cssutils.ser.prefs, k, v)


def sigdigits(ip, fp):
    d = (ip.lstrip('0') + fp)
    return len(d.lstrip('0')) if ip.strip('0') == '' else len(d)


def check_number(case, ctx):
    lit, omit = case['lit'], case['omit']
    src = frac_of(lit)
    sign, ip, fp, unit, val = src
    saved = cssutils.log.raiseExceptions
    cssutils.log.raiseExceptions = True
    try:
        with Prefs(omitLeadingZero=omit):
            with lib('parse'):
                pv = PropertyValue(lit)
                if len(pv) != 1 or not isinstance(pv[0], DimensionValue):
                    raise Violation('number:not-a-dimension', f'{lit!r} -> {pv!r}')
                v = pv[0]
                out = pv.cssText
                out2 = v.cssText
                typ, tv, td = v.type, v.value, v.dimension
            if out != out2:
                raise Violation('number:value-vs-propertyvalue-text', f'{lit!r}: {out!r} vs {out2!r}')
            # typed accessors
            expdim = unit.lower() or None
            exptype = 'PERCENTAGE' if unit == '%' else ('DIMENSION' if unit else 'NUMBER')
            if td != expdim or typ != exptype:
                raise Violation('number:accessor-dimension-or-type', f'{lit!r}: dimension {td!r} type {typ!r}')
            if fp:
                # (an integral literal too long for a float may come as the exact int)
                ok = (isinstance(tv, float) and tv == float(val)) or (isinstance(tv, int) and not fp.strip('0') and tv == val)
            else:
                ok = isinstance(tv, int) and tv == val
            if not ok:
                raise Violation('number:accessor-value', f'{lit!r}: value {tv!r}, source {val}')
            o = frac_of(out)
            if o is None:
                raise Violation('number:output-not-a-number', f'{lit!r} -> {out!r}')
            osign, oip, ofp, ounit, oval = o
            big = fp and abs(val) >= 2 ** 33
            if oval != val:
                if big or sigdigits(ip, fp) > 15:
                    raise Violation('number:float-noise-large-magnitude', f'{lit!r} -> {out!r}')
                raise Violation('number:value-changed', f'{lit!r} (omitLeadingZero={omit}) -> {out!r}')
            # unit
            expunit = unit.lower()
            if val == 0 and expunit in LENGTH_UNITS:
                expunit = ''
            if ounit != expunit:
                raise Violation('number:unit-changed', f'{lit!r} -> {out!r}')
            # sign
            if val == 0:
                if osign:
                    raise Violation('number:signed-zero', f'{lit!r} -> {out!r}')
            elif osign != sign:
                raise Violation('number:sign-changed', f'{lit!r} -> {out!r}')
            # redundant zeros
            if ofp.endswith('0') or (len(oip) > 1 and oip.startswith('0')):
                raise Violation('number:redundant-zeros', f'{lit!r} -> {out!r}')
            if val != 0:
                small = -1 < val < 1
                if omit and small and oip != '':
                    raise Violation('number:leading-zero-not-omitted', f'{lit!r} -> {out!r}')
                if not (omit and small) and oip == '':
                    raise Violation('number:leading-zero-missing', f'{lit!r} (omitLeadingZero={omit}) -> {out!r}')
            # as an argument of a function the literal keeps value AND unit (a bare 0 is a number there, no length)
            for wrap in ('calc(%s + 10%%)', 'f(%s, 1)', 'max(%s)'):
                with lib('in-function'):
                    inner = PropertyValue(wrap % lit).cssText
                m = re.match(r'[a-z]+\(\s*([^\s,)]+)', inner)
                io = frac_of(m.group(1)) if m else None
                if io is None or io[4] != val or io[3] != unit.lower():
                    raise Violation('number:changed-inside-function', f'{wrap % lit!r} -> {inner!r}')
            # the written literal parses back to the same thing
            with lib('reparse'):
                pv2 = PropertyValue(out)
                if pv2.cssText != out or pv2[0].value != tv or pv2[0].dimension != (expunit or None):
                    raise Violation('number:output-not-a-fixpoint', f'{lit!r} -> {out!r} -> {pv2.cssText!r}')
    finally:
        cssutils.log.raiseExceptions = saved
    nt = bool(fp) and (bool(sign) or fp.endswith('0') or (omit and -1 < val < 1) or ip.startswith('0'))
    ctx.event('omit' if omit else 'keep')
    ctx.case([lit, omit], nt, {'literal': lit, 'omitLeadingZero': omit, 'output': out})


# --------------------------------------------------------------------------- colours

HEX = '0123456789abcdefABCDEF'


def hash_cases(tier):
    for a in '0123456789abcdef':
        for b in '0123456789aBcDeF':
            for c in '0123456789ABCDEF':
                yield {'hash': '#' + a + b + c}
    step = 1 if tier == 'thorough' else 1021
    for n in range(0, 16 ** 6, step):
        yield {'hash': '#%06x' % n}
    for n in range(0, 256, 3):  # all-pairs-repeat and near misses
        h = '%02x' % n
        yield {'hash': '#' + h * 3}
        yield {'hash': '#' + h[0] * 2 + h[1] * 2 + h[0] + h[1]}
        yield {'hash': ('#' + h[0] * 2 + h[1] * 2 + 'AA').upper()}


def hash_channels(h):
    d = h[1:]
    if len(d) == 3:
        d = ''.join(ch * 2 for ch in d)
    return (int(d[0:2], 16), int(d[2:4], 16), int(d[4:6], 16), 1.0)


def check_hash(case, ctx):
    h = case['hash']
    exp = hash_channels(h)
    saved = cssutils.log.raiseExceptions
    cssutils.log.raiseExceptions = True
    try:
        for minimize in (True, False):
            with Prefs(minimizeColorHash=minimize):
                with lib('hash'):
                    pv = PropertyValue(h)
                    v = pv[0]
                    if not isinstance(v, ColorValue):
                        raise Violation('hash:not-a-colour', f'{h!r} -> {pv!r}')
                    got = (v.red, v.green, v.blue, v.alpha)
                    out = pv.cssText
                    pv2 = PropertyValue(out)
                    got2 = (pv2[0].red, pv2[0].green, pv2[0].blue, pv2[0].alpha)
                if got != exp:
                    raise Violation('hash:channels', f'{h!r}: {got} expected {exp}')
                if got2 != exp or not re.match(r'^#([0-9a-fA-F]{3}|[0-9a-fA-F]{6})$', out):
                    raise Violation('hash:serialisation-changes-colour', f'{h!r} (minimize={minimize}) -> {out!r} = {got2}')
                shortable = len(h) == 7 and h[1].lower() == h[2].lower() and h[3].lower() == h[4].lower() and h[5].lower() == h[6].lower()
                if not minimize and out.lower() != h.lower():
                    raise Violation('hash:changed-although-minimize-off', f'{h!r} -> {out!r}')
                if len(out) < len(h) and not shortable:
                    raise Violation('hash:lossy-shortening', f'{h!r} -> {out!r}')
    finally:
        cssutils.log.raiseExceptions = saved
    ctx.case(h, len(h) == 7, {'hash': h, 'output': out})


def hsl_to_rgb(h, s, l):
    """CSS3 colour module algorithm; h in degrees, s/l in 0..1"""
    h = (h % 360) / 360.0
    if l <= 0.5:
        m2 = l * (s + 1)
    else:
        m2 = l + s - l * s
    m1 = l * 2 - m2

    def hue(hh):
        if hh < 0:
            hh += 1
        if hh > 1:
            hh -= 1
        if hh * 6 < 1:
            return m1 + (m2 - m1) * hh * 6
        if hh * 2 < 1:
            return m2
        if hh * 3 < 2:
            return m1 + (m2 - m1) * (2.0 / 3 - hh) * 6
        return m1

    return hue(h + 1.0 / 3) * 255, hue(h) * 255, hue(h - 1.0 / 3) * 255


@st.composite
def colorfn_case(draw):
    kind = draw(st.sampled_from(['rgb', 'rgbp', 'rgba', 'rgbap', 'hsl', 'hsla']))
    name = {'rgb': 'rgb', 'rgbp': 'rgb', 'rgba': 'rgba', 'rgbap': 'rgba', 'hsl': 'hsl', 'hsla': 'hsla'}[kind]
    c = draw(st.integers(0, 3))
    name = name if c < 2 else (name.upper() if c == 2 else name.capitalize())
    if kind in ('rgb', 'rgba'):
        args = [str(draw(st.integers(0, 255))) for _ in range(3)]
    elif kind in ('rgbp', 'rgbap'):
        args = [draw(st.sampled_from(['0%', '100%', '50%', '12.5%', '33%', '99.9%', '0.4%', '20%', '60%'])) for _ in range(3)]
    else:
        args = [draw(st.sampled_from(['0', '120', '240', '360', '-120', '480', '30', '200', '45.5', '719', '-1000'])),
                draw(st.sampled_from(['0%', '100%', '50%', '25%', '75.5%'])),
                draw(st.sampled_from(['0%', '100%', '50%', '25%', '12.5%', '80%']))]
    if kind in ('rgba', 'rgbap', 'hsla'):
        args.append(draw(st.sampled_from(['0', '1', '0.5', '.25', '0.75', '1.0'])))
    sep = draw(st.sampled_from([',', ', ', ' , ', ',\n']))
    pad = draw(st.sampled_from(['', ' ']))
    return {'kind': kind, 'text': name + '(' + pad + sep.join(args) + pad + ')', 'args': args,
            'omit': draw(st.booleans())}


def check_colorfn(case, ctx):
    kind, args = case['kind'], case['args']
    nums = [float(a.rstrip('%')) for a in args]
    if kind in ('rgb', 'rgba'):
        exp = nums[:3]
    elif kind in ('rgbp', 'rgbap'):
        exp = [255 * n / 100 for n in nums[:3]]
    else:
        exp = list(hsl_to_rgb(nums[0], nums[1] / 100, nums[2] / 100))
    alpha = nums[3] if len(nums) > 3 else 1.0
    tol = 0 if kind in ('rgb', 'rgba') else 1.0001
    saved = cssutils.log.raiseExceptions
    cssutils.log.raiseExceptions = True
    try:
        with Prefs(omitLeadingZero=case['omit']):
            with lib('colorfn'):
                pv = PropertyValue(case['text'])
                v = pv[0]
                if not isinstance(v, ColorValue) or len(pv) != 1:
                    raise Violation('colorfn:not-a-colour', f'{case["text"]!r} -> {pv!r}')
                got = (v.red, v.green, v.blue, v.alpha)
                out = pv.cssText
                pv2 = PropertyValue(out)
                v2 = pv2[0]
                got2 = (v2.red, v2.green, v2.blue, v2.alpha)
        if any(abs(g - e) > tol for g, e in zip(got[:3], exp)) or abs(got[3] - alpha) > 1e-9:
            raise Violation('colorfn:channels', f'{case["text"]!r}: {got}, expected {exp + [alpha]}')
        if got2 != got:
            raise Violation('colorfn:serialisation-changes-colour', f'{case["text"]!r} -> {out!r}: {got} -> {got2}')
    finally:
        cssutils.log.raiseExceptions = saved
    ctx.event('kind:' + kind)
    ctx.case(case['text'], True, {'text': case['text'], 'output': out, 'channels': list(got)})


BASIC = {'black': (0, 0, 0), 'silver': (192, 192, 192), 'gray': (128, 128, 128), 'white': (255, 255, 255),
         'maroon': (128, 0, 0), 'red': (255, 0, 0), 'purple': (128, 0, 128), 'fuchsia': (255, 0, 255),
         'green': (0, 128, 0), 'lime': (0, 255, 0), 'olive': (128, 128, 0), 'yellow': (255, 255, 0),
         'navy': (0, 0, 128), 'blue': (0, 0, 255), 'teal': (0, 128, 128), 'aqua': (0, 255, 255), 'orange': (255, 165, 0)}


def keyword_cases(tier):
    from cssutils.css.colors import COLORS

    for k in sorted(COLORS):
        for sp in (k, k.upper(), k.capitalize()):
            yield {'kw': sp}


def check_keyword(case, ctx):
    kw = case['kw']
    saved = cssutils.log.raiseExceptions
    cssutils.log.raiseExceptions = True
    try:
        with lib('keyword'):
            pv = PropertyValue(kw)
            v = pv[0]
            if not isinstance(v, ColorValue):
                raise Violation('keyword:not-a-colour', f'{kw!r} -> {pv!r}')
            got = (v.red, v.green, v.blue, v.alpha)
            out = pv.cssText
            low = PropertyValue(kw.lower())[0]
            v2 = PropertyValue(out)[0]
        if kw.lower() in BASIC and got != BASIC[kw.lower()] + (1.0,):
            raise Violation('keyword:channels', f'{kw!r}: {got}')
        if kw.lower() == 'transparent' and got != (0, 0, 0, 0.0):
            raise Violation('keyword:channels', f'{kw!r}: {got}')
        if got != (low.red, low.green, low.blue, low.alpha):
            raise Violation('keyword:case-changes-colour', f'{kw!r}: {got}')
        if out.lower() != kw.lower() or (v2.red, v2.green, v2.blue, v2.alpha) != got:
            raise Violation('keyword:serialisation-changes-colour', f'{kw!r} -> {out!r}')
        if not all(isinstance(x, int) and 0 <= x <= 255 for x in got[:3]):
            raise Violation('keyword:channel-range', f'{kw!r}: {got}')
    finally:
        cssutils.log.raiseExceptions = saved
    ctx.case(kw, kw.lower() in BASIC, {'keyword': kw, 'channels': list(got)})


# --------------------------------------------------------------------------- strings and URLs

CONTENT = list('abcXYZ019 !#$%&*+,-./:;<=>?@[]^_`{|}~()"\'') + ['\t', '\n', '\r', '\f', 'é', '€', '中', '\U0001F600', '\xa0']
URL_LITERAL_OK = set('abcXYZ019!#$%&*+-./:;<=>?@[]^_`{|}~,') | {'é', '€', '中', '\U0001F600'}


@st.composite
def text_case(draw):
    content = draw(st.lists(st.sampled_from(CONTENT), max_size=10))
    form = draw(st.sampled_from(['dq', 'sq', 'url-dq', 'url-sq', 'url-bare']))
    q = '"' if 'dq' in form else "'"
    parts = []
    for i, ch in enumerate(content):
        nxt = content[i + 1] if i + 1 < len(content) else ''
        hexesc = '\\%x ' % ord(ch)
        if form == 'url-bare':
            if ch in URL_LITERAL_OK and ch != ',' and ch != ';' and draw(st.integers(0, 5)):
                parts.append(ch)
            else:
                parts.append(hexesc)
        else:
            if ch == q:
                parts.append(draw(st.sampled_from(['\\' + q, hexesc])))
            elif ch in '\n\r\f':
                parts.append(hexesc)
            elif draw(st.integers(0, 7)) == 0:
                parts.append(hexesc)
            else:
                parts.append(ch)
    body = ''.join(parts)
    if form.startswith('url'):
        w1 = draw(st.sampled_from(['', ' ', '\n']))
        w2 = draw(st.sampled_from(['', ' ']))
        head = draw(st.sampled_from(['url(', 'URL(', 'Url(']))
        if form == 'url-bare':
            src = head + w1 + body + w2 + ')'
        else:
            src = head + w1 + q + body + q + w2 + ')'
    else:
        src = q + body + q
    return {'content': ''.join(content), 'src': src, 'form': form}


def check_text(case, ctx):
    content, src, form = case['content'], case['src'], case['form']
    if form == 'url-bare' and content == '':
        pass
    saved = cssutils.log.raiseExceptions
    cssutils.log.raiseExceptions = True
    try:
        with lib('text'):
            pv = PropertyValue(src)
            if len(pv) != 1:
                raise Violation('text:not-one-value', f'{src!r} -> {pv!r}')
            v = pv[0]
            isurl = form.startswith('url')
            if isurl != isinstance(v, URIValue):
                raise Violation('text:wrong-value-class', f'{src!r} -> {v!r}')
            got = v.uri if isurl else v.value
            typ = v.type
            out = pv.cssText
            pv2 = PropertyValue(out)
            v2 = pv2[0] if len(pv2) == 1 else None
            got2 = None if v2 is None else (v2.uri if isinstance(v2, URIValue) else v2.value)
            out2 = pv2.cssText
        edge = form == 'url-bare' and content and (content[0] in ' \t\n\r\f"\'' or content[-1] in ' \t\n\r\f"\'')
        if edge and (got != content or got2 != content):
            # listed finding F18-1: a hex-escaped white space / quote at the edge of an unquoted url() is decoded by
            # the tokenizer and then stripped as if it had been written literally
            raise Violation('text:bare-url-edge-escape-reinterpreted', f'{src!r}: accessor {got!r}, content {content!r}')
        if got != content or typ != ('URI' if isurl else 'STRING'):
            raise Violation('text:accessor-differs-from-source', f'{src!r}: accessor {got!r}, content {content!r}')
        if v2 is None or got2 != content or isinstance(v2, URIValue) != isurl:
            raise Violation('text:content-changed-by-serialisation', f'{src!r} -> {out!r} -> {got2!r}, content {content!r}')
        if out2 != out:
            raise Violation('text:serialisation-not-a-fixpoint', f'{src!r} -> {out!r} -> {out2!r}')
    finally:
        cssutils.log.raiseExceptions = saved
    nt = any(c in content for c in '"\'() \t\n\r\f')
    ctx.event('form:' + form)
    ctx.case(src, nt, {'source': src, 'content': content, 'output': out})


# --------------------------------------------------------------------------- component lists

COMPONENTS = ['red', '1px', '0.50em', '10%', '"a b"', 'url(x.png)', '#aabbcc', '#abcdef', 'rgb(1,2,3)', 'serif',
              '-1.50', '+2', 'counter(a)', 'Arial', '0', 'U+0-7F', 'inherit', 'attr(x)']
SEPS = [' ', ',', '/']
SPACERS = [' ', '', '  ']


@st.composite
def list_case(draw):
    n = draw(st.integers(2, 5))
    comps = [draw(st.sampled_from(COMPONENTS)) for _ in range(n)]
    seps = [draw(st.sampled_from(SEPS)) for _ in range(n - 1)]
    pads = [draw(st.sampled_from(['', ' ', '\n'])) for _ in range(2 * (n - 1))]
    text = comps[0]
    for i, s in enumerate(seps):
        text += (s if s == ' ' else pads[2 * i] + s + pads[2 * i + 1]) + comps[i + 1]
    return {'text': text, 'comps': comps, 'seps': seps, 'listItemSpacer': draw(st.sampled_from(SPACERS)),
            'omit': draw(st.booleans()), 'minimize': draw(st.booleans())}


def toks(text):
    return [(t[0], t[1]) for t in cssutils.tokenize2.Tokenizer().tokenize(text) if t[0] != 'COMMENT']


def structure(text):
    """(component token groups, separators) of a value text; nesting aware"""
    comps, seps, cur, depth = [], [], [], 0
    pending_space = False
    for typ, val in toks(text):
        if depth == 0 and typ == 'S':
            pending_space = True
            continue
        if depth == 0 and typ == 'CHAR' and val in ',/':
            comps.append(cur)
            cur = []
            seps.append(val)
            pending_space = False
            continue
        if depth == 0 and pending_space and cur:
            comps.append(cur)
            cur = []
            seps.append(' ')
        pending_space = False
        if typ == 'FUNCTION' or val == '(':
            depth += 1
        elif val == ')':
            depth -= 1
        if typ != 'S':
            cur.append((typ, val.lower() if typ in ('FUNCTION', 'DIMENSION') else val))
    comps.append(cur)
    return comps, seps


def check_list(case, ctx):
    saved = cssutils.log.raiseExceptions
    cssutils.log.raiseExceptions = True
    try:
        with Prefs(listItemSpacer=case['listItemSpacer'], omitLeadingZero=case['omit'], minimizeColorHash=case['minimize']):
            with lib('list'):
                pv = PropertyValue(case['text'])
                out = pv.cssText
                n = len(pv)
                singles = [PropertyValue(c).cssText for c in case['comps']]
                pv2 = PropertyValue(out)
                out2 = pv2.cssText
        if n != len(case['comps']):
            raise Violation('list:component-count', f'{case["text"]!r}: {n} values, source has {len(case["comps"])}')
        ocomps, oseps = structure(out)
        if oseps != case['seps']:
            raise Violation('list:separators-changed', f'{case["text"]!r} -> {out!r}: {oseps} vs {case["seps"]}')
        exp = [structure(s)[0][0] for s in singles]
        if ocomps != exp:
            raise Violation('list:components-changed', f'{case["text"]!r} -> {out!r}: {ocomps} vs {exp}')
        if out2 != out:
            raise Violation('list:not-a-fixpoint', f'{case["text"]!r} -> {out!r} -> {out2!r}')
    finally:
        cssutils.log.raiseExceptions = saved
    ctx.case(case['text'], len(set(case['seps'])) > 1, {'text': case['text'], 'output': out})


SUBS = [
    Sub('number', check_number, strategy=number_case(), quick=20000, thorough=2000000, shards_quick=8),
    Sub('hash', check_hash, enumerate=hash_cases, shards_quick=8, shards_thorough=16, budget_thorough=3000),
    Sub('colorfn', check_colorfn, strategy=colorfn_case(), quick=4000, thorough=300000, shards_quick=4),
    Sub('keyword', check_keyword, enumerate=keyword_cases, shards_quick=2, shards_thorough=2),
    Sub('text', check_text, strategy=text_case(), quick=8000, thorough=600000, shards_quick=8),
    Sub('list', check_list, strategy=list_case(), quick=4000, thorough=300000, shards_quick=4),
]


# --------------------------------------------------------------------------- excluded regions (listed findings)


def backslash_cases(tier):
    yield {'src': '"a\\5c b"', 'content': 'a\\b'}
    yield {'src': '"a\\5c"', 'content': 'a\\'}
    yield {'src': 'url(a\\5c b)', 'content': 'a\\b'}
    yield {'src': "'\\5c 62'", 'content': '\\62'}


def check_backslash(case, ctx):
    saved = cssutils.log.raiseExceptions
    cssutils.log.raiseExceptions = True
    try:
        with lib('text'):
            pv = PropertyValue(case['src'])
            v = pv[0]
            got = v.uri if isinstance(v, URIValue) else v.value
            out = pv.cssText
            v2 = PropertyValue(out)[0]
            got2 = v2.uri if isinstance(v2, URIValue) else v2.value
        ctx.case(case['src'], True, case)
        if got != case['content'] or got2 != case['content']:
            raise Violation('text:backslash-content-reinterpreted', f'{case["src"]!r}: accessor {got!r}, after round trip {got2!r}, content {case["content"]!r}')
    finally:
        cssutils.log.raiseExceptions = saved


def bignum_cases(tier):
    for lit in ['89988363843.6', '8589934592.5px', '-123456789012.25em', '99999999999.1%']:
        yield {'lit': lit, 'omit': False}


SUBS.append(Sub('backslash', check_backslash, enumerate=backslash_cases, shards_quick=1, shards_thorough=1))
SUBS.append(Sub('bignum', check_number, enumerate=bignum_cases, shards_quick=1, shards_thorough=1))


# --------------------------------------------------------------------------- backslashes written as escaped pairs (the form that works)

HEXD = '0123456789abcdefABCDEF'


def css_unescape(body):
    """content denoted by the inside of a CSS string or quoted URL (independent decoder)"""
    out, i, n = [], 0, len(body)
    while i < n:
        c = body[i]
        if c != '\\':
            out.append(c)
            i += 1
            continue
        if i + 1 >= n:
            i += 1
            continue
        d = body[i + 1]
        if d in HEXD:
            j = i + 1
            while j < n and j - i - 1 < 6 and body[j] in HEXD:
                j += 1
            out.append(chr(int(body[i + 1:j], 16)))
            if body[j:j + 2] == '\r\n':
                j += 2
            elif j < n and body[j] in ' \t\r\n\f':
                j += 1
            i = j
        elif d in '\n\f':
            i += 2
        elif d == '\r':
            i += 3 if body[i + 2:i + 3] == '\n' else 2
        else:
            out.append(d)
            i += 2
    return ''.join(out)


def token_content(tok):
    t = tok.strip(' \t\r\n\f')
    if t[:4].lower() == 'url(':
        t = t[4:-1].strip(' \t\r\n\f')
    if t[:1] in '"\'':
        return css_unescape(t[1:-1])
    return css_unescape(t)


@st.composite
def pairs_case(draw):
    # HEX*: an escape of fewer than six digits with nothing behind it: what follows is content unless it is CSS white space
    atoms = draw(st.lists(st.sampled_from(['a', 'b', ' ', 'BS', 'BS', 'DQ', 'SQ', '1', 'é', 'HEX41', 'HEXe9', 'HEX2014', '\xa0', '\u3000', '\u2028',
                                           '\x0b', '\x85', 'g']), min_size=0, max_size=6))
    tail = draw(st.integers(0, 3))  # escaped backslashes at the very end
    form = draw(st.sampled_from(['dq', 'sq', 'url-dq', 'url-sq', 'url-bare']))
    q = '"' if 'dq' in form else "'"
    if form == 'url-bare':
        atoms = [a for a in atoms if a not in (' ', 'DQ', 'SQ', '\x0b', '\x85')]
    # (a hex digit right behind it would belong to the escape: not generated, the code point could leave the Unicode range)
    atoms = [('g' if a in ('a', 'b', '1') and i and atoms[i - 1].startswith('HEX') else a) for i, a in enumerate(atoms)]
    atoms = [('\\' + a[3:]) if a.startswith('HEX') else a for a in atoms]
    if form == 'url-bare':
        body = ''.join('\\\\' if a == 'BS' else a for a in atoms + ['BS'] * tail)
        return {'src': 'url(' + body + ')', 'form': form, 'omit': draw(st.booleans())}
    body = ''
    for a in atoms + ['BS'] * tail:
        if a == 'BS':
            body += '\\\\'
        elif a == 'DQ':
            body += '\\"' if q == '"' else '"'
        elif a == 'SQ':
            body += "\\'" if q == "'" else "'"
        else:
            body += a
    src = q + body + q
    if form.startswith('url'):
        src = 'url(' + src + ')'
    return {'src': src, 'form': form, 'omit': draw(st.booleans())}


def check_pairs(case, ctx):
    src = case['src']
    want = token_content(src)
    saved = cssutils.log.raiseExceptions
    cssutils.log.raiseExceptions = True
    try:
        with lib('text'):
            pv = PropertyValue(src)
            if len(pv) != 1:
                raise Violation('pairs:not-one-value', f'{src!r} -> {pv.cssText!r}')
            out = pv.cssText
        try:
            with lib('reparse', expect=(xml.dom.DOMException,)):
                pv2 = PropertyValue(out)
                out2 = pv2.cssText
                n2 = len(pv2)
        except xml.dom.DOMException as e:
            raise Violation('pairs:output-does-not-parse', f'{src!r} -> {out!r}: {e}')
        try:
            got = token_content(out)
        except Exception:  # noqa: BLE001
            raise Violation('pairs:output-not-a-token', f'{src!r} -> {out!r}')
        if got != want:
            raise Violation('pairs:content-changed', f'{src!r} denotes {want!r}; written {out!r} denotes {got!r}')
        if n2 != 1 or out2 != out:
            raise Violation('pairs:output-not-a-fixpoint', f'{src!r} -> {out!r} -> {out2!r}')
        # inside a sheet
        with lib('sheet'):
            sh = cssutils.parseString('a { content: %s; top: 0 }' % src if not src.startswith('url') else 'a { background: %s; top: 0 }' % src)
            st_ = sh.cssRules[0].style
            if st_.length != 2:
                raise Violation('pairs:declaration-lost-in-sheet', f'{src!r}: {sh.cssText!r}')
            re_ = cssutils.parseString(sh.cssText)
            if re_.cssRules.length != 1 or re_.cssRules[0].style.length != 2 or re_.cssText != sh.cssText:
                raise Violation('pairs:sheet-round-trip', f'{src!r}: {sh.cssText!r} -> {re_.cssText!r}')
    finally:
        cssutils.log.raiseExceptions = saved
    nbs = want.count('\\')
    ctx.event('backslashes:%d' % min(nbs, 4))
    if want.endswith('\\'):
        ctx.event('ends-with-backslash')
    ctx.case(src, nbs >= 1, {'source': src, 'content': want, 'output': out})


SUBS.append(Sub('pairs', check_pairs, strategy=pairs_case(), quick=6000, thorough=300000, shards_quick=4))


# --------------------------------------------------------------------------- more than six fractional digits: rounded, but consistently


def rounding_cases(tier):
    for lit in ['1.0000001', '0.9999999', '-0.9999999px', '0.0000001px', '-0.0000001%', '2.99999999', '0.1234567', '-12.3456789em', '0.99999949',
                '0.9999995', '+0.9999999', '999999.9999999', '0.00000049', '1.00000051pt']:
        for omit in (False, True):
            yield {'lit': lit, 'omit': omit}


def check_rounding(case, ctx):
    lit, omit = case['lit'], case['omit']
    src = frac_of(lit)
    saved = cssutils.log.raiseExceptions
    cssutils.log.raiseExceptions = True
    try:
        with Prefs(omitLeadingZero=omit):
            with lib('parse'):
                out = PropertyValue(lit).cssText
                out2 = PropertyValue(out).cssText
            o = frac_of(out)
            if o is None:
                raise Violation('rounding:output-not-a-number', f'{lit!r} (omitLeadingZero={omit}) -> {out!r}')
            if abs(o[4] - src[4]) > Fraction(1, 10 ** 6):
                raise Violation('rounding:value-off-by-more-than-1e-6', f'{lit!r} (omitLeadingZero={omit}) -> {out!r}')
            if out2 != out:
                raise Violation('rounding:output-not-a-fixpoint', f'{lit!r} (omitLeadingZero={omit}) -> {out!r} -> {out2!r}')
    finally:
        cssutils.log.raiseExceptions = saved
    ctx.case([lit, omit], True, {'literal': lit, 'omitLeadingZero': omit, 'output': out})


SUBS.append(Sub('rounding', check_rounding, enumerate=rounding_cases, shards_quick=1, shards_thorough=1))


# --------------------------------------------------------------------------- \" inside a single-quoted string (listed finding, pinned by the suite)


def otherquote_cases(tier):
    for src in ["'a\\\"b'", "url('a\\\"b')", "url(a\\\"b)", "'\\\"'"]:
        yield {'src': src}


def check_otherquote(case, ctx):
    src = case['src']
    want = token_content(src)
    saved = cssutils.log.raiseExceptions
    cssutils.log.raiseExceptions = False
    try:
        with lib('text'):
            out = PropertyValue(src).cssText
            back = PropertyValue(out).cssText
        ctx.case(src, True, {'source': src, 'output': out})
        ok = back == out
        try:
            ok = ok and token_content(out) == want
        except Exception:  # noqa: BLE001
            ok = False
        if not ok:
            raise Violation('text:escaped-double-quote-reescaped', f'{src!r} denotes {want!r}; written {out!r}, which reparses to {back!r}')
    finally:
        cssutils.log.raiseExceptions = saved


SUBS.append(Sub('otherquote', check_otherquote, enumerate=otherquote_cases, shards_quick=1, shards_thorough=1))


# --------------------------------------------------------------------------- further listed findings from the defect hunt


def listed_cases(tier):
    yield {'tag': 'url-line-continuation'}
    yield {'tag': 'stale-sign-after-value-set'}
    yield {'tag': 'python-number-exponent'}


def check_listed(case, ctx):
    saved = cssutils.log.raiseExceptions
    cssutils.log.raiseExceptions = False
    try:
        ctx.case(case['tag'], True, case)
        with lib('listed'):
            if case['tag'] == 'url-line-continuation':
                pv = PropertyValue('url("a\\\nb")')
                uri = pv[0].uri if len(pv) == 1 and isinstance(pv[0], URIValue) else None
                back = PropertyValue(pv.cssText)
                uri2 = back[0].uri if len(back) == 1 and isinstance(back[0], URIValue) else None
                if uri != 'ab' or uri2 != 'ab':
                    raise Violation('listed:url-line-continuation', f'url("a\\<LF>b") denotes "ab"; accessor {uri!r}, written {pv.cssText!r}, re-read {uri2!r}')
            elif case['tag'] == 'stale-sign-after-value-set':
                pv = PropertyValue('+1px')
                pv[0].value = -2
                out = pv.cssText
                if frac_of(out) is None or frac_of(out)[4] != -2:
                    raise Violation('listed:stale-sign-after-value-set', f'PropertyValue("+1px")[0].value = -2 is written {out!r}')
            else:
                out = PropertyValue(0.00001).cssText
                f = frac_of(out)
                if f is None or f[4] != Fraction(1, 100000):
                    raise Violation('listed:python-number-exponent', f'PropertyValue(0.00001) is written {out!r}')
    finally:
        cssutils.log.raiseExceptions = saved


SUBS.append(Sub('listed', check_listed, enumerate=listed_cases, shards_quick=1, shards_thorough=1))


# --------------------------------------------------------------------------- Python numbers given through the API


def pynumber_case():
    # numbers %f writes exactly: at most 6 decimals, magnitude below 2**33 (F18-3 is listed for the rest)
    small = st.builds(lambda m, k: [m, k], st.integers(-10 ** 9, 10 ** 9), st.integers(0, 6))
    return st.fixed_dictionaries({
        'num': st.one_of(small, st.builds(lambda m: [m, 0], st.integers(-10 ** 25, 10 ** 25))),
        'as_float': st.booleans(),
        'init': st.sampled_from(['+1px', '-1px', '1px', '+0.5em', '-.5%', '+2', '0']),
        'entry': st.sampled_from(['PropertyValue', 'setProperty', 'value=', 'Property']),
    })


def check_pynumber(case, ctx):
    m, k = case['num']
    exact = Fraction(m, 10 ** k)
    if case['as_float'] or k:
        num = m / 10 ** k
        if Fraction(num) != exact and abs(exact) >= 2 ** 33:
            ctx.event('excluded:float-noise-large-magnitude(F18-3)')
            return
        if abs(Fraction(num) - exact) > Fraction(1, 10 ** 9) or abs(exact) >= 2 ** 53:
            ctx.event('excluded:float-cannot-hold-the-number')
            return
    else:
        num = m
    saved = cssutils.log.raiseExceptions
    cssutils.log.raiseExceptions = False
    try:
        with lib('pynumber'):
            unit = ''
            if case['entry'] == 'PropertyValue':
                out = PropertyValue(num).cssText
            elif case['entry'] == 'setProperty':
                st_ = cssutils.css.CSSStyleDeclaration()
                st_.setProperty('x-n', num)
                out = st_.getPropertyValue('x-n')
            elif case['entry'] == 'Property':
                out = cssutils.css.Property('x-n', num).value
            else:
                pv = PropertyValue(case['init'])
                pv[0].value = num
                out = pv.cssText
                unit = frac_of(case['init'])[3] or ''
        f = frac_of(out)
        if isinstance(num, float) and 'e' in repr(num):
            ctx.event('python-repr-has-exponent')
        ctx.case([case['num'], case['as_float'], case['entry'], case['init'] if case['entry'] == 'value=' else ''],
                 isinstance(num, float) or abs(m) >= 2 ** 53 or case['entry'] == 'value=', {'written': out})
        if f is None or f[4] != exact or (f[3] or '') not in (unit, '' if exact == 0 else unit):
            raise Violation('pynumber:' + ('value-set' if case['entry'] == 'value=' else 'number-given') + ':written-as-another-number',
                            f'{case["entry"]} with the Python number {num!r}' + (f' on {case["init"]!r}' if case['entry'] == 'value=' else '')
                            + f' is written {out!r}')
    finally:
        cssutils.log.raiseExceptions = saved


SUBS.append(Sub('pynumber', check_pynumber, strategy=pynumber_case(), quick=4000, thorough=300000, shards_quick=4))


from vlib.reported import reported_sub  # noqa: E402

SUBS.append(reported_sub('C18'))
