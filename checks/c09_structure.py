"""C09 — a stylesheet stays structurally valid under any sequence of DOM edits."""

import xml.dom

from hypothesis import strategies as st

import cssutils
from cssutils import css
from vlib.runner import Sub, Violation, frame_sig

PROPERTY = 'C09'
RULE = (
    'Histories of 1..12 edits on one sheet (initial text from a pool of valid sheets): insertRule(text | object, index) '
    'for all ten rule kinds and all indexes 0..len+1, ordered add, deleteRule(index | object), del / pop / remove on the cssRules lists of the sheet and of nested rules, sheet.cssText = (valid, '
    'invalid, mis-ordered texts), rule.cssText =, sheet.encoding =, namespaces[p] = uri, del namespaces[p], and the same '
    'insert / add / delete on the rule lists of @media and @page rules; insertRule(rule list) / cssRules.extend(rule list) with lists '
    'of allowed and disallowed kinds parsed from another sheet; setProperty(Property object taken from another declaration block); '
    '@page texts that repeat a margin box (merged); insertRule(rule, index, inOrder=True); re-insertion of rule objects removed '
    'earlier; a @namespace rule shadowing a prefix in use; rule.style= / selectorText= / selectorList= / media= (text or object); '
    'error mode raise/log chosen per history. '
    'Invariant after every step, accepted or rejected: at most one @charset and only first; every @import before every '
    '@namespace before every style/media/page/font-face rule; @media lists hold no charset/import/namespace/font-face/'
    'margin rule, @page lists only margin rules; every reachable rule / declaration block / property names its actual '
    'container as parent (parentStyleSheet, parentRule and parent; style, selector list and media list name their rule) and '
    'removed objects name none - removed rules, replaced declaration blocks / selector lists / media lists, and rule objects that '
    'were offered to an insertion but are not in the sheet; the rule types with non-empty text equal the rule types of the '
    'reparsed serialisation. Plus all histories of length <= 2 over a reduced alphabet (exhaustive). Non-trivial: >= 3 '
    'effective steps with an insert/add after a delete or text replacement, or a rejected step followed by an accepted '
    'one; distinct by history.'
    ' Rule texts also: margin box keywords in other spellings at sheet level, other @variables blocks (their replaced declaration blocks are tracked like style blocks).'
)
ASSUMPTIONS = [
    'only xml.dom.DOMException counts as a rejection; any other exception type escaping an edit is reported as crash (it is outside the wording of C09)',
    '@variables rules are not asserted relative to @namespace (the statement does not place them)',
    'imports are resolved by a fetcher serving empty sheets',
]

KINDS = ['charset', 'import', 'namespace', 'variables', 'media', 'page', 'fontface', 'style', 'comment', 'unknown', 'margin', 'namespace-shadow']
TEXT = {
    'charset': '@charset "utf-8";', 'import': '@import "x.css";', 'namespace': '@namespace q "http://q.example";',
    'variables': '@variables { x: 1px }', 'media': '@media print { m { top: 0 } }', 'page': '@page :first { margin: 0 }',
    'fontface': '@font-face { font-family: "F"; src: url(f.woff) }', 'style': 's { color: red }', 'comment': '/* c */',
    'unknown': '@foo bar;', 'margin': '@top-left { content: "x" }',
    'namespace-shadow': '@namespace p "http://shadow.example";',  # the prefix the initial sheets use, another URI
}
INIT = ['', 'a { top: 0 }', '@charset "ascii"; @import "i.css"; @namespace p "http://p.example"; p|a { top: 0 }',
        '/* c */ @import "i.css"; b { left: 0 } @media tv { c { top: 0 } @page { margin: 0 } } @page { margin: 1cm; @top-left { x: y } }',
        '@namespace "http://d.example"; @font-face { font-family: "F"; src: url(f) } d { top: 0 } @foo;',
        '@import "i.css";', '@import "i.css"; @namespace p "http://p.example";']
SHEET_TEXTS = ['a { top: 0 } b { left: 0 }', '@import "late.css"; c {}', 'x { top: 0 } @import "late.css";', 'a {',
               '@namespace z "http://z.example"; z|a { top: 0 }', 'a,,b { top: 0 }', '@charset "utf-8"; a { top: 0 } @charset "ascii";',
               '@media print { @import "x"; a { top: 0 } }', 'zz|a { top: 0 }', '',
               'a { top: 0 } @page { @top-left { content: "a" } @top-left { font-size: 9pt; content: "b" } }']
RULE_TEXTS = ['r { top: 1px }', '@media tv { r { left: 0 } }', 'r {', '@import "x";', '/* r */', 'r,,s { top: 0 }', '@page { margin: 2cm }',
              '@namespace r "http://r.example";', '@charset "latin-1";',
              '@page { @top-left { content: "a" } @top-left { font-size: 9pt } margin: 1cm }',
              '@media print { @page { @bottom-right { content: "a" } @bottom-right { color: red; content: "b" } } }',
              # a prelude that is rejected in front of a block that is fine, and the other way round
              '@media 3x { c { top: 0 } }', '@media print and { c { top: 0 } d { left: 0 } }', '@media tv { c { top: 0 } @import "x"; }',
              '@media tv { c { top: 0 } } trailing', '@page :nosuch { margin: 1cm }', '@page :first { margin: 1cm; @nosuch-box { top: 0 } }',
              'r { top: 0 } s { left: 0 }', ', { top: 0 }', 'nn|r { top: 0 }', '@font-face { font-family: x; } x', '@variables { y: 2px; } x',
              '@TOP-LEFT { content: "x" }', '@Bottom-Center { top: 0 }', '@variables { d: blue }', '@variables { e: 1px; f: 2px }']
LIST_TEXTS = ['x { top: 0 } /* c */ y { left: 0 }', '@namespace l "http://l.example"; l|a { top: 0 }',
              '@font-face { font-family: "L"; src: url(l) } m { top: 0 }', '@import "l.css"; n { top: 0 }',
              '@page { margin: 0 } @media print { o { top: 0 } }', '@charset "ascii"; p { top: 0 }', '/* only */', '@foo l; q { top: 0 }',
              '@page { @top-left { content: "l" } }']


def make_object(kind):
    if kind == 'charset':
        return css.CSSCharsetRule(encoding='utf-8')
    if kind == 'import':
        return css.CSSImportRule(href='o.css')
    if kind == 'namespace':
        return css.CSSNamespaceRule(namespaceURI='http://o.example', prefix='o')
    if kind == 'namespace-shadow':
        return css.CSSNamespaceRule(namespaceURI='http://shadow2.example', prefix='p')
    if kind == 'variables':
        r = css.CSSVariablesRule()
        r.cssText = TEXT['variables']
        return r
    if kind == 'media':
        r = css.CSSMediaRule(mediaText='print')
        return r
    if kind == 'page':
        return css.CSSPageRule(selectorText=':left')
    if kind == 'fontface':
        r = css.CSSFontFaceRule()
        r.cssText = TEXT['fontface']
        return r
    if kind == 'style':
        return css.CSSStyleRule(selectorText='o', style='top: 0')
    if kind == 'comment':
        return css.CSSComment('/* o */')
    if kind == 'unknown':
        return css.CSSUnknownRule('@foo obj;')
    if kind == 'margin':
        return css.MarginRule(margin='@top-right', style='content: "o"')
    raise ValueError(kind)


kind_s = st.sampled_from(KINDS)
op = st.one_of(
    st.tuples(st.just('insert'), kind_s, st.booleans(), st.integers(0, 8)),
    st.tuples(st.just('insert'), kind_s, st.booleans(), st.integers(0, 8)),
    st.tuples(st.just('add'), kind_s, st.booleans()),
    st.tuples(st.just('delete'), st.integers(0, 8), st.booleans()),
    st.tuples(st.just('sheetText'), st.integers(0, len(SHEET_TEXTS) - 1)),
    st.tuples(st.just('ruleText'), st.integers(0, 8), st.integers(0, len(RULE_TEXTS) - 1)),
    st.tuples(st.just('encoding'), st.sampled_from(['utf-8', 'ascii', 'x-nope', None, 'latin-1'])),
    st.tuples(st.just('nsSet'), st.sampled_from(['p', 'q', 'n', '']), st.sampled_from(['http://p.example', 'http://n.example', 'http://q.example'])),
    st.tuples(st.just('nsDel'), st.sampled_from(['p', 'q', 'n', '', 'zz'])),
    st.tuples(st.just('nInsert'), st.integers(0, 4), kind_s, st.booleans(), st.integers(0, 4)),
    st.tuples(st.just('nAdd'), st.integers(0, 4), kind_s, st.booleans()),
    st.tuples(st.just('nDelete'), st.integers(0, 4), st.integers(0, 4)),
    st.tuples(st.just('insertList'), st.integers(-1, 4), st.integers(0, len(LIST_TEXTS) - 1), st.integers(0, 4), st.booleans()),
    st.tuples(st.just('setPropObj'), st.integers(0, 6), st.booleans()),
    st.tuples(st.just('insertInOrder'), kind_s, st.booleans(), st.integers(0, 8)),
    st.tuples(st.just('reinsert'), st.integers(0, 6), st.booleans(), st.integers(0, 8)),
    st.tuples(st.just('styleSet'), st.integers(0, 6), st.integers(0, 3)),
    st.tuples(st.just('mediaSet'), st.integers(0, 4), st.booleans()),
    # deletion through the Python list interface of cssRules (sheet: container -1, else a nested container)
    st.tuples(st.just('listDelete'), st.integers(-1, 3), st.integers(0, 8), st.sampled_from(['del', 'pop', 'remove', 'pop-last'])),
)
strategy = st.fixed_dictionaries({
    'init': st.integers(0, len(INIT) - 1), 'raising': st.booleans(), 'ops': st.lists(op, min_size=1, max_size=12),
}).map(lambda d: {**d, 'ops': [list(o) for o in d['ops']]})

BODY = None


def check_invariants(sheet, removed, step):
    R = cssutils.css.CSSRule
    rules = list(sheet.cssRules)
    types = [r.type for r in rules]
    if types.count(R.CHARSET_RULE) > 1 or (R.CHARSET_RULE in types and types[0] != R.CHARSET_RULE):
        raise Violation('order:charset', f'after {step}: {[r.typeString for r in rules]}')
    body = (R.STYLE_RULE, R.MEDIA_RULE, R.PAGE_RULE, R.FONT_FACE_RULE)
    seen_ns = seen_body = False
    for r in rules:
        if r.type == R.IMPORT_RULE and (seen_ns or seen_body):
            raise Violation('order:import-after-namespace-or-rules', f'after {step}: {[x.typeString for x in rules]}')
        if r.type == R.NAMESPACE_RULE:
            if seen_body:
                raise Violation('order:namespace-after-rules', f'after {step}: {[x.typeString for x in rules]}')
            seen_ns = True
        if r.type in body:
            seen_body = True
        if r.type == R.MARGIN_RULE:
            raise Violation('nesting:margin-rule-at-top-level', f'after {step}')

    def parents(rule_list, container):
        for r in rule_list:
            if r.parentStyleSheet is not sheet:
                raise Violation('parent:rule.parentStyleSheet', f'after {step}: {r.typeString} {r.cssText[:40]!r} names {r.parentStyleSheet!r}')
            if r.parentRule is not container:
                raise Violation('parent:rule.parentRule', f'after {step}: {r.typeString} names {r.parentRule!r}, container {container!r}')
            if getattr(r, 'parent', container) is not container:
                raise Violation('parent:rule.parent', f'after {step}: {r.typeString}.parent is {r.parent!r}, container {container!r}')
            for attr in ('selectorList', 'media'):
                part = getattr(r, attr, None)
                if part is not None and r.type in (R.STYLE_RULE, R.MEDIA_RULE, R.IMPORT_RULE) and getattr(part, 'parentRule', r) is not r:
                    raise Violation('parent:' + attr + '.parentRule', f'after {step}: {attr} of {r.typeString} names {part.parentRule!r}')
            style = getattr(r, 'style', None)
            if style is not None and r.type != R.COMMENT:
                if style.parentRule is not r:
                    raise Violation('parent:style.parentRule', f'after {step}: style of {r.typeString}')
                for p in style.getProperties(all=True):
                    if p.parent is not style:
                        raise Violation('parent:property.parent', f'after {step}: {p.name} in {r.typeString}')
            if r.type == R.MEDIA_RULE:
                for c in r.cssRules:
                    if c.type in (R.CHARSET_RULE, R.IMPORT_RULE, R.NAMESPACE_RULE, R.FONT_FACE_RULE, R.MARGIN_RULE, R.VARIABLES_RULE):
                        raise Violation('nesting:forbidden-rule-in-media', f'after {step}: {c.typeString}')
                parents(r.cssRules, r)
            if r.type == R.PAGE_RULE:
                for c in r.cssRules:
                    if c.type != R.MARGIN_RULE:
                        raise Violation('nesting:non-margin-rule-in-page', f'after {step}: {c.typeString}')
                parents(r.cssRules, r)

    parents(rules, None)
    living = list(walk(sheet.cssRules))
    living_parts = []
    for r in living:
        for attr in ('style', 'selectorList', 'media', 'variables'):
            part = getattr(r, attr, None)
            if part is not None:
                living_parts.append(part)
    for obj, how in removed:
        if how.startswith('part:'):
            # a declaration block / selector list / media list that was replaced
            if any(obj is x for x in living_parts):
                continue
            owner = getattr(obj, 'parentRule', None)
            if owner is not None and any(owner is r for r in living):
                raise Violation('parent:replaced-part-still-names-rule:' + how[5:], f'after {step}: replaced {type(obj).__name__} names {owner.typeString}')
            continue
        if any(obj is r for r in living):
            continue  # re-attached later
        if getattr(obj, 'parent', None) is not None and not (obj.parentRule is not None and obj.parent is obj.parentRule):
            raise Violation('parent:removed-object-still-names-container:parent', f'after {step}: {obj.typeString} ({how}) has parent {obj.parent!r}')
        # an object removed together with its container may keep naming that (removed) container
        in_removed_container = obj.parentRule is not None and not any(obj.parentRule is r for r in living)
        if obj.parentStyleSheet is not None or (obj.parentRule is not None and not in_removed_container):
            raise Violation('parent:removed-object-still-names-container:' + how,
                            f'after {step}: {obj.typeString} removed by {how} names {obj.parentStyleSheet!r} / {obj.parentRule!r}')
    # no rule lost to an ordering error on reparse
    saved = {k: getattr(cssutils.ser.prefs, k) for k in ('keepEmptyRules', 'resolveVariables')}
    cssutils.ser.prefs.keepEmptyRules = True
    cssutils.ser.prefs.resolveVariables = False
    mode = cssutils.log.raiseExceptions
    try:
        text = sheet.cssText
        with_text = [r.type for r in rules if r.cssText]
        cssutils.log.raiseExceptions = False
        re_ = cssutils.CSSParser(fetcher=lambda u: (None, '')).parseString(text)
        cssutils.log.raiseExceptions = mode
        got = [r.type for r in re_.cssRules]
    finally:
        cssutils.log.raiseExceptions = mode
        for k, v in saved.items():
            setattr(cssutils.ser.prefs, k, v)
    if got != with_text:
        raise Violation('reparse:rule-lost-or-reordered', f'after {step}: {text[:300]!r}: DOM {with_text} reparse {got}')


def walk(rules):
    for r in rules:
        yield r
        if hasattr(r, 'cssRules') and r.type in (r.MEDIA_RULE, r.PAGE_RULE):
            yield from walk(r.cssRules)


def containers(sheet):
    return [r for r in walk(sheet.cssRules) if r.type in (r.MEDIA_RULE, r.PAGE_RULE)]


def check(case, ctx):
    saved = cssutils.log.raiseExceptions
    try:
        cssutils.log.raiseExceptions = False
        sheet = cssutils.CSSParser(fetcher=lambda u: (None, '')).parseString(INIT[case['init']])
        cssutils.log.raiseExceptions = case['raising']
        removed = []
        check_invariants(sheet, removed, 'init')
        effective = 0
        after_removal = False
        nontrivial = False
        last_rejected = False
        for k, o in enumerate(case['ops']):
            step = f'op {k} {o!r} (raising={case["raising"]}, init={case["init"]})'
            kind = o[0]
            before_rules = list(walk(sheet.cssRules))
            before_parts = [(attr, getattr(r, attr)) for r in before_rules for attr in ('style', 'selectorList', 'media', 'variables')
                            if getattr(r, attr, None) is not None]
            offered = None
            rejected = False
            try:
                if kind == 'insert':
                    arg = make_object(o[1]) if o[2] else TEXT[o[1]]
                    offered = arg if o[2] else None
                    sheet.insertRule(arg, min(o[3], sheet.cssRules.length + 1))
                elif kind == 'add':
                    arg = make_object(o[1]) if o[2] else TEXT[o[1]]
                    offered = arg if o[2] else None
                    sheet.add(arg)
                elif kind == 'insertInOrder':
                    arg = make_object(o[1]) if o[2] else TEXT[o[1]]
                    offered = arg if o[2] else None
                    sheet.insertRule(arg, min(o[3], sheet.cssRules.length), inOrder=True)
                elif kind == 'reinsert':
                    gone_rules = [r for r, how in removed if not how.startswith('part:') and not any(r is x for x in before_rules)
                                  and r.type != r.MARGIN_RULE]
                    # a rule that still sits in the list of a (removed) container is not offered on its own: where an object that two
                    # lists hold belongs is outside the statement (listed as a report that was not kept, DESIGN 9.6)
                    held = [c for x, how in removed if not how.startswith('part:') and hasattr(x, 'cssRules') and x.type in (x.MEDIA_RULE, x.PAGE_RULE)
                            for c in x.cssRules]
                    gone_rules = [r for r in gone_rules if not any(r is c for c in held)]
                    if not gone_rules:
                        continue
                    offered = gone_rules[o[1] % len(gone_rules)]
                    if o[2]:
                        sheet.add(offered)
                    else:
                        sheet.insertRule(offered, min(o[3], sheet.cssRules.length))
                elif kind == 'styleSet':
                    styled = [r for r in before_rules if r.type in (r.STYLE_RULE, r.PAGE_RULE, r.FONT_FACE_RULE)]
                    if not styled:
                        continue
                    t = styled[o[1] % len(styled)]
                    if o[2] == 0:
                        t.style = 'left: 1px'
                    elif o[2] == 1:
                        t.style = css.CSSStyleDeclaration(cssText='right: 2px')
                    elif t.type == t.STYLE_RULE:
                        t.selectorText = 'k, l'
                    if o[2] == 3 and t.type == t.STYLE_RULE:
                        t.selectorList = css.SelectorList(selectorText='m')
                elif kind == 'mediaSet':
                    ms = [r for r in before_rules if r.type in (r.MEDIA_RULE, r.IMPORT_RULE)]
                    if not ms:
                        continue
                    t = ms[o[1] % len(ms)]
                    t.media = 'tv' if o[2] else cssutils.stylesheets.MediaList('projection')
                elif kind == 'delete':
                    if o[2] and sheet.cssRules.length:
                        sheet.deleteRule(sheet.cssRules[o[1] % sheet.cssRules.length])
                    else:
                        sheet.deleteRule(o[1])
                elif kind == 'listDelete':
                    cs = containers(sheet)
                    c = sheet if o[1] < 0 or not cs else cs[o[1] % len(cs)]
                    lst = c.cssRules
                    if not len(lst):
                        continue
                    i = o[2] % len(lst)
                    try:
                        if o[3] == 'del':
                            del lst[i]
                        elif o[3] == 'pop':
                            lst.pop(i)
                        elif o[3] == 'pop-last':
                            lst.pop()
                        else:
                            lst.remove(lst[i])
                    except NotImplementedError:
                        # a list that does not offer the operation
                        ctx.event('listDelete:not-implemented')
                        continue
                elif kind == 'sheetText':
                    sheet.cssText = SHEET_TEXTS[o[1]]
                elif kind == 'ruleText':
                    if sheet.cssRules.length:
                        target = sheet.cssRules[o[1] % sheet.cssRules.length]
                        if target.type == target.NAMESPACE_RULE:
                            ctx.event('skipped:text-of-namespace-rule(C15)')
                            continue
                        target.cssText = RULE_TEXTS[o[2]]
                elif kind == 'encoding':
                    sheet.encoding = o[1]
                elif kind == 'nsSet':
                    sheet.namespaces[o[1]] = o[2]
                elif kind == 'nsDel':
                    del sheet.namespaces[o[1]]
                elif kind == 'insertList':
                    saved_mode = cssutils.log.raiseExceptions
                    cssutils.log.raiseExceptions = False
                    try:
                        other = cssutils.CSSParser(fetcher=lambda u: (None, '')).parseString(LIST_TEXTS[o[2]])
                    finally:
                        cssutils.log.raiseExceptions = saved_mode
                    rules = other.cssRules
                    if o[2] == len(LIST_TEXTS) - 1 and rules.length:
                        rules = rules[0].cssRules  # a list of margin rules
                    cs = containers(sheet)
                    target = sheet if o[1] < 0 or not cs else cs[o[1] % len(cs)]
                    if o[4] and hasattr(target.cssRules, 'extend') and target is not sheet:
                        target.cssRules.extend(rules)
                    else:
                        target.insertRule(rules, min(o[3], target.cssRules.length))
                elif kind == 'setPropObj':
                    styled = [r for r in walk(sheet.cssRules) if hasattr(r, 'style')]
                    if not styled:
                        continue
                    target = styled[o[1] % len(styled)]
                    donor = css.CSSStyleDeclaration(cssText='left: 1px; x-moved: 1')
                    target.style.setProperty(donor.getProperties(all=True)[0], replace=o[2])
                else:
                    cs = containers(sheet)
                    if not cs:
                        continue
                    c = cs[o[1] % len(cs)]
                    if kind == 'nInsert':
                        c.insertRule(make_object(o[2]) if o[3] else TEXT[o[2]], min(o[4], c.cssRules.length + 1))
                    elif kind == 'nAdd':
                        c.add(make_object(o[2]) if o[3] else TEXT[o[2]])
                    elif kind == 'nDelete':
                        c.deleteRule(o[2])
            except xml.dom.DOMException:
                rejected = True
            except Exception as e:  # noqa: BLE001
                raise Violation('crash:' + kind + ':' + frame_sig(e), f'{step}: {e!r}')
            ctx.event('op:' + kind + (':rejected' if rejected else ''))
            now = list(walk(sheet.cssRules))
            gone = [r for r in before_rules if not any(r is x for x in now)]
            how = {'delete': 'deleteRule', 'nDelete': 'deleteRule', 'listDelete': 'del/pop/remove on cssRules', 'sheetText': 'sheet.cssText=', 'ruleText': 'rule.cssText=',
                   'nsDel': 'del namespaces[]'}.get(kind, kind)
            removed.extend((r, how) for r in gone)
            now_parts = [getattr(r, attr) for r in now for attr in ('style', 'selectorList', 'media', 'variables') if getattr(r, attr, None) is not None]
            for attr, part in before_parts:
                if not any(part is x for x in now_parts):
                    removed.append((part, 'part:' + attr + ' replaced by ' + how))
            if offered is not None and not any(offered is x for x in now):
                # an object that was offered but is not part of the sheet must not claim to be
                if offered.parentStyleSheet is sheet or any(offered.parentRule is x for x in now):
                    raise Violation('parent:object-not-inserted-names-sheet:' + kind + (':rejected' if rejected else ':accepted'),
                                    f'{step}: {offered.typeString} is not in the sheet but names {offered.parentStyleSheet!r}')
            check_invariants(sheet, removed, step)
            if not rejected:
                effective += 1
                if kind in ('insert', 'add', 'nInsert', 'nAdd', 'insertList', 'insertInOrder', 'reinsert') and (after_removal or last_rejected) and effective >= 3:
                    nontrivial = True
                if gone:
                    after_removal = True
            last_rejected = rejected
        ctx.case(case, nontrivial, {'init': INIT[case['init']], 'raising': case['raising'], 'ops': case['ops'],
                                    'final': [r.typeString for r in sheet.cssRules]})
    finally:
        cssutils.log.raiseExceptions = saved


def exhaustive_cases(tier):
    alphabet = [['insert', k, False, i] for k in ('charset', 'import', 'namespace', 'style', 'comment') for i in (0, 1, 2)]
    alphabet += [['add', k, False] for k in ('charset', 'import', 'namespace', 'style')]
    alphabet += [['delete', 0, False], ['delete', 1, True], ['sheetText', 2], ['sheetText', 1], ['nsDel', 'p'], ['encoding', 'ascii']]
    for init in (1, 2, 3):
        for a in alphabet:
            yield {'init': init, 'raising': True, 'ops': [a]}
            for b in alphabet:
                yield {'init': init, 'raising': bool(len(a) % 2), 'ops': [a, b]}


SUBS = [
    Sub('history', check, strategy=strategy, quick=8000, thorough=200000, shards_quick=8, budget_quick=90),
    Sub('short', check, enumerate=exhaustive_cases, shards_quick=8, shards_thorough=16, budget_quick=90),
]


from vlib.reported import reported_sub  # noqa: E402

SUBS.append(reported_sub('C09'))
