"""C07 — CSS codec: round trip, CSS 2.1 encoding detection, chunking invariance."""

import codecs
import io
import itertools

from hypothesis import strategies as st

import cssutils  # noqa: F401  (registers the codec)
from cssutils import codec as C
from vlib.reported import reported_sub
from vlib.runner import Sub, Violation, lib

PROPERTY = 'C07'
RULE = (
    'detect: every byte string of length 0..4 over the 11 byte classes the detector distinguishes (EF BB BF FF FE 00 @ c h a '
    'other), alone and followed by charset tails, x final in {False, True}, compared with a reference decision procedure '
    'written from CSS 2.1 section 4.4 (exhaustive); never-wrong: a non-final answer must survive every extension. '
    'roundtrip: (text, encoding) over 15 encodings with per-encoding alphabets, text optionally starting with a complete / '
    'incomplete @charset rule naming the same or another encoding; encode then decode with the encoding given and '
    'auto-detected; result must equal the text with the charset name rewritten. chunk: arbitrary partitions (cut lists, '
    'biased to cuts inside BOM, charset rule and multi-byte characters) fed to incremental encoder/decoder (iterencode/'
    'iterdecode and directly with final flag) and to stream reader/writer; output must equal the one-shot result and have '
    'the right type. Non-trivial: a cut strictly inside BOM / charset rule / multi-byte sequence, or a charset name '
    'rewrite; distinct by (bytes, cuts).'
    ' The decoder class is also driven through its own iterdecode(), reused after reset() for another document, and rebuilt '
    'from getstate()/setstate() between all chunks; so is the encoder. force: bytes in one encoding decoded with ANOTHER '
    'encoding given and force in {True, False}, one-shot, incrementally and through the stream reader, against the documented '
    'rule (forced: the given encoding; not forced: an explicit BOM / @charset rule wins, else the given encoding).'
)
ASSUMPTIONS = [
    'Python standard codecs are the oracle for encode/decode of a given encoding',
    'utf-8-sig is reported as utf-8 inside a rewritten @charset rule (documented in the codec)',
    '@charset names in generated texts are always known Python codec names (unknown names must raise LookupError and are not generated)',
    'stream reader/writer: documents whose encoding decision is still open at end of stream are a listed finding (the codecs stream API has no final flag)',
]
EXHAUSTIVE = True

PREFIX = '@charset "'


# --------------------------------------------------------------------------- reference (CSS 2.1 §4.4)

BOMS = [(b'\xef\xbb\xbf', 'utf-8-sig'), (b'\xff\xfe\x00\x00', 'utf-32'), (b'\x00\x00\xfe\xff', 'utf-32'),
        (b'\xff\xfe', 'utf-16'), (b'\xfe\xff', 'utf-16')]
PATTERNS = [(b'@\x00\x00\x00', 'utf-32-le'), (b'\x00\x00\x00@', 'utf-32-be'), (b'@\x00c\x00', 'utf-16-le'),
            (b'\x00@\x00c', 'utf-16-be')]


def ref_detect(p, final):
    """returns (encoding or None, explicit)"""
    # BOMs first; FF FE is ambiguous with FF FE 00 00 until 4 bytes are known
    for sig, enc in BOMS:
        if p.startswith(sig):
            if sig == b'\xff\xfe' and not final and len(p) < 4 and b'\xff\xfe\x00\x00'.startswith(p):
                return (None, False)
            return (enc, True)
    for sig, enc in PATTERNS:
        if p.startswith(sig):
            return (enc, False)
    pre = PREFIX.encode('ascii')
    if p.startswith(pre):
        end = p.find(b'"', len(pre))
        if end >= 0:
            return (''.join(chr(b) for b in p[len(pre):end]), True)
        return ('utf-8', False) if final else (None, False)
    if not final:
        cands = [s for s, _ in BOMS] + [s for s, _ in PATTERNS] + [pre]
        if any(s.startswith(p) and len(p) < len(s) for s in cands):
            return (None, False)
    return ('utf-8', False)


def rewrite(t, enc):
    if t.startswith(PREFIX) and len(t) > len(PREFIX):
        pos = t.find('"', len(PREFIX))
        if pos >= 0:
            name = 'utf-8' if enc.replace('_', '-').lower() == 'utf-8-sig' else enc
            return PREFIX + name + t[pos:]
    return t


def canon(enc):
    if enc is None:
        return None
    try:
        n = codecs.lookup(enc).name
    except LookupError:
        return 'unknown:' + enc.lower()
    return n


# --------------------------------------------------------------------------- detection table

CLASSES = [0xEF, 0xBB, 0xBF, 0xFF, 0xFE, 0x00, ord('@'), ord('c'), ord('h'), ord('a'), ord('x')]
TAILS = [b'', b'rset "utf-8";', b'rset "latin-1', b'rset ', b'\x00h\x00a\x00', b'\x00\x00']
EXT = [b'', b'\x00', b'\x00\x00', b'\x00\x00\x00', b'\xfe\xff', b'\xff', b'@', b'c\x00', b'charset "x";', b'harset "x";',
       b'rset "koi8-r";', b'\x00@', b'\xbb\xbf', b'\xbf', b'a', b'x', b'"', b'set "x"']


def detect_cases(tier):
    for n in range(0, 5):
        for combo in itertools.product(CLASSES, repeat=n):
            yield {'p': list(combo)}


def check_detect(case, ctx):
    p0 = bytes(case['p'])
    for tail in (TAILS if len(p0) == 4 else TAILS[:1]):
        p = p0 + tail
        for final in (False, True):
            with lib('detectencoding_str'):
                got = C.detectencoding_str(p, final)
            if not (isinstance(got, tuple) and len(got) == 2 and isinstance(got[1], bool)
                    and (got[0] is None or isinstance(got[0], str))):
                raise Violation('detect:result-shape', f'{p!r} final={final}: {got!r}')
            ref = ref_detect(p, final)
            if final:
                if got[0] is None:
                    raise Violation('detect:final-unknown', f'{p!r}: {got!r}')
                if (canon(got[0]), got[1]) != (canon(ref[0]), ref[1]):
                    sig = 'detect:final-differs-from-css21'
                    if p in (b'\xff\xfe', b'\xff\xfe\x00'):
                        sig = 'detect:final-utf16-bom-alone'
                    raise Violation(sig, f'{p!r} final=True: library {got!r}, CSS 2.1 {ref!r}')
            elif got[0] is not None:
                if ref[0] is None or (canon(got[0]), got[1]) != (canon(ref[0]), ref[1]):
                    raise Violation('detect:early-answer-wrong', f'{p!r} final=False: library {got!r}, CSS 2.1 {ref!r}')
                # never wrong: every extension keeps the answer
                for s in EXT:
                    with lib('detectencoding_str'):
                        later = C.detectencoding_str(p + s, True)
                    if (canon(later[0]), later[1]) != (canon(got[0]), got[1]):
                        raise Violation('detect:answer-changes-with-more-data', f'{p!r}->{got!r} but {p + s!r}->{later!r}')
            ctx.case([list(p), final], len(p) >= 2, {'bytes': p.hex(), 'final': final, 'answer': list(got)})


# the same for the text detector
UPRE = ['', '@', '@c', '@charset', '@charset ', '@charset "', '@charset "u', '@charset "utf-8', '@charset "utf-8"',
        '@charset "utf-8";a{}', '@charset  "x";', '@Charset "x";', 'a{}', ' @charset "x";', '@charset "";', '@x', '﻿@charset "x";']


def udetect_cases(tier):
    for t in UPRE:
        yield {'t': t}


def ref_udetect(t, final):
    if t.startswith(PREFIX):
        pos = t.find('"', len(PREFIX))
        if pos >= 0:
            return (t[len(PREFIX):pos], True)
        return ('utf-8', False) if final else (None, False)
    if not final and PREFIX.startswith(t):
        return (None, False)
    return ('utf-8', False)


def check_udetect(case, ctx):
    t = case['t']
    for final in (False, True):
        with lib('detectencoding_unicode'):
            got = C.detectencoding_unicode(t, final)
        ref = ref_udetect(t, final)
        if final and got != ref:
            raise Violation('udetect:final-differs', f'{t!r}: {got!r} vs {ref!r}')
        if not final and got[0] is not None and got != ref:
            raise Violation('udetect:early-answer-wrong', f'{t!r}: {got!r} vs {ref!r}')
        ctx.case([t, final], True, {'text': t, 'final': final, 'answer': list(got)})


# --------------------------------------------------------------------------- round trip and chunking

ENC = {
    'utf-8': 'ä€中😀﻿', 'utf-8-sig': 'ä€中😀', 'utf-16': 'ä€中😀', 'utf-16-le': 'ä€中😀', 'utf-16-be': 'ä€中😀',
    'utf-32': 'ä€中😀', 'utf-32-le': 'ä€中😀', 'utf-32-be': 'ä€中😀', 'latin-1': 'äöü©ÿ', 'cp1252': '€“äÿ',
    'iso-8859-15': '€Šä', 'koi8-r': 'Ждя', 'shift_jis': 'あ漢ｱ', 'gb2312': '中文', 'ascii': '',
    # stateful legacy encodings: the encoder must be told when the input ends (closing shift sequence)
    'iso2022_jp': 'あ漢日', 'hz': '中文', 'euc_jp': 'あ漢ｱ', 'iso2022_kr': '한글',
}
ASCII_COMPAT = {'utf-8', 'utf-8-sig', 'latin-1', 'cp1252', 'iso-8859-15', 'koi8-r', 'shift_jis', 'gb2312', 'ascii',
                'iso2022_jp', 'hz', 'euc_jp', 'iso2022_kr'}
FRAG = ['a', 'b', '{', '}', ':', ';', ' ', '\n', '"', "'", '@', 'c', 'h', '\\', '@charset "', '@import "x";', 'a{b:c}',
        '/* c */', '@charset', '@ch', '@c', '"x";']


@st.composite
def text_enc(draw):
    enc = draw(st.sampled_from(sorted(ENC)))
    alpha = FRAG + list(ENC[enc])
    head_kind = draw(st.integers(0, 9))
    name = draw(st.sampled_from([enc, enc, enc.upper(), 'utf-8', 'latin-1', 'koi8-r', 'ascii', 'utf-16', 'iso-8859-1',
                                 enc.replace('-', '_')]))
    if head_kind <= 3:
        head = PREFIX + name + '";'
    elif head_kind == 4:
        head = PREFIX + name  # no closing quote
    elif head_kind == 5:
        head = draw(st.sampled_from(['@charset', '@charset ', '@char', '@c', '@', '@charset "']))
    elif head_kind == 6:
        head = '@charset  "' + name + '";'  # malformed (two spaces)
    else:
        head = ''
    body = ''.join(draw(st.lists(st.sampled_from(alpha), max_size=8)))
    return head + body, enc


def cuts_strategy(n):
    return st.lists(st.integers(0, max(n, 0)), max_size=6).map(lambda c: sorted(set(c)))


@st.composite
def rt_case(draw):
    t, enc = draw(text_enc())
    cuts_b = draw(st.lists(st.integers(0, 40), max_size=6))
    cuts_t = draw(st.lists(st.integers(0, 30), max_size=6))
    return {'text': t, 'enc': enc, 'given': draw(st.booleans()), 'cuts_b': sorted(set(cuts_b)), 'cuts_t': sorted(set(cuts_t)),
            'empty_chunks': draw(st.booleans())}


def split(seq, cuts, empty_chunks=False):
    out, last = [], 0
    for c in cuts:
        c = min(c, len(seq))
        if c > last or (empty_chunks and c == last):
            out.append(seq[last:c])
            last = c
    out.append(seq[last:])
    return out


def expected_encode(t, enc_given):
    """one-shot reference: returns (bytes, encoding used)"""
    if enc_given is None:
        e = ref_udetect(t, True)[0]
        t2 = rewrite(t, 'utf-8') if e.replace('_', '-').lower() == 'utf-8-sig' else t
        return t2.encode(e), e
    return rewrite(t, enc_given).encode(enc_given), enc_given


def check_roundtrip(case, ctx):
    t, enc, given = case['text'], case['enc'], case['given']
    # one-shot encode
    try:
        exp_bytes, used = expected_encode(t, enc if given else None)
    except (UnicodeEncodeError, LookupError):
        ctx.event('domain:not-encodable')
        return
    with lib('encode', expect=()):
        got = codecs.getencoder('css')(t, encoding=enc) if given else codecs.getencoder('css')(t)
    if not isinstance(got[0], bytes) or got[0] != exp_bytes or got[1] != len(t):
        raise Violation('roundtrip:encode', f'encode({t!r}, {enc if given else None}) = {got!r}, expected {exp_bytes!r}')
    data = exp_bytes
    want = rewrite(rewrite(t, used) if given else t, used)
    if not given and used.replace('_', '-').lower() == 'utf-8-sig':
        want = rewrite(t, 'utf-8')
    # decode with the encoding given
    try:
        ref_text = data.decode(used)
    except UnicodeDecodeError:
        return
    with lib('decode-given'):
        d = codecs.getdecoder('css')(data, encoding=used)
    if d[0] != rewrite(ref_text, used) or not isinstance(d[0], str):
        raise Violation('roundtrip:decode-given', f'decode({data!r}, {used}) = {d[0]!r}, expected {rewrite(ref_text, used)!r}')
    if d[0] != want:
        raise Violation('roundtrip:text-not-restored', f'{t!r} -[{used}]-> {data!r} -> {d[0]!r}, expected {want!r}')
    # auto detection whenever the bytes are self-describing
    det = ref_detect(data, True)
    auto_ok = det[1] or canon(used) in ('utf-8',) or (det[0] is not None and canon(det[0]) == canon(used))
    rewritten = want != t
    if auto_ok and not det[0].startswith('unknown') and canon(det[0]) and not canon(det[0]).startswith('unknown:'):
        try:
            ref_auto = data.decode(det[0])
        except (UnicodeDecodeError, LookupError):
            ref_auto = None
        if ref_auto is not None:
            with lib('decode-auto'):
                a = codecs.getdecoder('css')(data)
            if a[0] != rewrite(ref_auto, det[0]):
                raise Violation('roundtrip:decode-auto', f'decode({data!r}) = {a[0]!r}, expected {rewrite(ref_auto, det[0])!r} ({det})')
            if canon(det[0]) == canon(used) or (canon(det[0]), canon(used)) == ('utf-8-sig', 'utf-8'):
                # the rule names the encoding actually used; its spelling (case, alias) may differ
                # one leading U+FEFF is the signature; the rule behind it is rewritten like a leading one
                if rewrite(a[0], 'X') not in (rewrite(want, 'X'), rewrite(want, 'X').removeprefix('﻿'), rewrite(want.removeprefix('﻿'), 'X')):
                    raise Violation('roundtrip:auto-text-not-restored', f'{t!r} -[{used}]-> {data!r} -> {a[0]!r}')
            ctx.event('auto-detected')
    ctx.event('enc:' + enc)
    ctx.case([t, enc, given], rewritten or any(ord(c) > 127 for c in t), {'text': t, 'enc': enc, 'given': given, 'bytes': data.hex()})


def interesting_cut(data, cuts, text=False):
    """a cut strictly inside BOM, charset rule or (bytes) a multi-byte sequence"""
    pre = PREFIX if text else None
    for c in cuts:
        if 0 < c < len(data):
            if text:
                if data.startswith('@c') and c < (data.find(';') if ';' in data else len(data)):
                    return True
            else:
                if c < 4 and data[:2] in (b'\xff\xfe', b'\xfe\xff', b'\xef\xbb', b'\x00\x00'):
                    return True
                if data[:2] in (b'@c', b'@\x00', b'\x00@') and c < 24:
                    return True
                if data[c] & 0xC0 == 0x80 or data[c - 1] >= 0x80:
                    return True
    return False


def undetermined_text(t):
    return (PREFIX.startswith(t) and len(t) <= len(PREFIX)) or (t.startswith(PREFIX) and t.find('"', len(PREFIX)) < 0)


class ChunkStream:
    def __init__(self, chunks):
        self.chunks = list(chunks)

    def read(self, size=-1):
        return self.chunks.pop(0) if self.chunks else b''


def _iterencode(chunks, kw):
    # codecs.iterencode (its own 'encoding' parameter clashes with the codec's keyword)
    enc = codecs.getincrementalencoder('css')('strict', **kw)
    for c in chunks:
        out = enc.encode(c)
        if out:
            yield out
    out = enc.encode('', True)
    if out:
        yield out


def _iterdecode(chunks, kw):
    dec = codecs.getincrementaldecoder('css')('strict', **kw)
    for c in chunks:
        out = dec.decode(c)
        if out:
            yield out
    out = dec.decode(b'', True)
    if out:
        yield out


def check_chunk(case, ctx):
    """all chunked variants; violations that are the listed end-of-stream finding are reported only
    if nothing else is wrong with the case"""
    found = []
    _check_chunk(case, ctx, found)
    if found:
        other = [v for v in found if not v.sig.startswith('chunking:stream-end-undetermined')]
        raise (other or found)[0]


def _check_chunk(case, ctx, found):
    t, enc, given = case['text'], case['enc'], case['given']
    only = case.get('only')
    try:
        exp_bytes, used = expected_encode(t, enc if given else None)
        oneshot_text = codecs.getdecoder('css')(exp_bytes, encoding=used)[0]
    except (UnicodeEncodeError, UnicodeDecodeError, LookupError):
        ctx.event('domain:not-encodable')
        return
    kw = {'encoding': enc} if given else {}
    tchunks = split(t, case['cuts_t'], case['empty_chunks'])
    bchunks = split(exp_bytes, case['cuts_b'], case['empty_chunks'])

    # --- incremental encoder through codecs.iterencode
    with lib('iterencode'):
        parts = list(_iterencode(tchunks, kw))
    if any(not isinstance(x, bytes) for x in parts) or b''.join(parts) != exp_bytes:
        raise Violation('chunking:iterencode', f'{tchunks!r} {kw} -> {parts!r}, one-shot {exp_bytes!r}')
    # --- incremental encoder used directly with the final flag
    with lib('incrementalencoder'):
        ie = codecs.getincrementalencoder('css')(**kw)
        parts = [ie.encode(c, i == len(tchunks) - 1) for i, c in enumerate(tchunks)]
    if any(not isinstance(x, bytes) for x in parts):
        raise Violation('type:incrementalencoder-returns-str', f'{tchunks!r} {kw} -> {parts!r}')
    if b''.join(parts) != exp_bytes:
        raise Violation('chunking:incrementalencoder', f'{tchunks!r} {kw} -> {parts!r}, one-shot {exp_bytes!r}')

    # --- the encoder rebuilt from, and given back, its own state between all chunks
    with lib('encoder-state'):
        ie = codecs.getincrementalencoder('css')(**kw)
        parts = []
        for i, c in enumerate(tchunks):
            parts.append(ie.encode(c, i == len(tchunks) - 1))
            if i < len(tchunks) - 1:
                st_ = ie.getstate()
                if i % 2:
                    ie = codecs.getincrementalencoder('css')(**kw)
                ie.setstate(st_)
    if b''.join(parts) != exp_bytes:
        raise Violation('chunking:encoder-getstate-setstate', f'{tchunks!r} {kw} -> {parts!r}, one-shot {exp_bytes!r}')

    # --- incremental decoder
    dkw = {'encoding': used}
    for label, k in (('given', dkw), ('auto', {})):
        if label == 'auto':
            try:
                exp_text = codecs.getdecoder('css')(exp_bytes)[0]
            except (UnicodeDecodeError, LookupError):
                continue
        else:
            exp_text = oneshot_text
        with lib('iterdecode-' + label):
            parts = list(_iterdecode(bchunks, k))
        if any(not isinstance(x, str) for x in parts) or ''.join(parts) != exp_text:
            raise Violation('chunking:iterdecode-' + label, f'{[c.hex() for c in bchunks]} {k} -> {parts!r}, one-shot {exp_text!r}')
        with lib('incrementaldecoder-' + label):
            d = codecs.getincrementaldecoder('css')(**k)
            parts = [d.decode(c, i == len(bchunks) - 1) for i, c in enumerate(bchunks)]
        if any(not isinstance(x, str) for x in parts) or ''.join(parts) != exp_text:
            raise Violation('chunking:incrementaldecoder-' + label, f'{[c.hex() for c in bchunks]} {k} -> {parts!r}, one-shot {exp_text!r}')
        # --- the decoder class's own iterdecode, a decoder reused after reset(), and save/restore of its state
        with lib('decoder-iterdecode-' + label):
            d2 = cssutils.codec.IncrementalDecoder(**k)
            parts = list(d2.iterdecode(bchunks))
        if ''.join(parts) != exp_text:
            raise Violation('chunking:decoder.iterdecode-' + label, f'{[c.hex() for c in bchunks]} {k} -> {parts!r}, one-shot {exp_text!r}')
        with lib('decoder-reset-' + label):
            d2.reset()
            other = b'@charset "latin-1";x\xe9' if label == 'auto' else exp_bytes
            other_exp = codecs.getdecoder('css')(other, **k)[0]
            got = d2.decode(other, True)
            d2.reset()
            again = ''.join(d2.decode(c, i == len(bchunks) - 1) for i, c in enumerate(bchunks))
        if got != other_exp or again != exp_text:
            raise Violation('chunking:decoder-reused-after-reset-' + label, f'{[c.hex() for c in bchunks]} {k}: second document {got!r} (one-shot {other_exp!r}), '
                            f'third {again!r} (one-shot {exp_text!r})')
        with lib('decoder-state-' + label):
            d3 = codecs.getincrementaldecoder('css')(**k)
            out = []
            for i, c in enumerate(bchunks):
                out.append(d3.decode(c, i == len(bchunks) - 1))
                if i < len(bchunks) - 1:
                    st_ = d3.getstate()
                    d3 = codecs.getincrementaldecoder('css')(**k)
                    d3.setstate(st_)
        if ''.join(out) != exp_text:
            raise Violation('chunking:decoder-getstate-setstate-' + label, f'{[c.hex() for c in bchunks]} {k} -> {out!r}, one-shot {exp_text!r}')

        # --- stream reader (an empty read means end of stream, so no empty chunks here)
        if only == 'writer':
            continue
        schunks = [c for c in bchunks if c]
        try:
            with lib('streamreader-' + label, expect=(UnicodeDecodeError,)):
                r = codecs.getreader('css')(ChunkStream(schunks), **k)
                got = r.read()
        except UnicodeDecodeError as e:
            if canon(used) in ('shift_jis', 'gb2312', 'euc_jp', 'iso2022_jp', 'iso2022_kr', 'hz'):
                raise Violation('chunking:streamreader-legacy-multibyte-cut', f'{[c.hex() for c in schunks]} {k}: {e}')
            raise Violation('chunking:streamreader-decode-error', f'{[c.hex() for c in schunks]} {k}: {e}')
        if got != exp_text:
            open_end = undetermined_text(exp_text) or (label == 'auto' and ref_detect(exp_bytes, False)[0] is None)
            if open_end and exp_text.startswith(got):
                found.append(Violation('chunking:stream-end-undetermined:reader', f'{[c.hex() for c in schunks]} {k} -> {got!r}, one-shot {exp_text!r}'))
            else:
                raise Violation('chunking:streamreader-' + label, f'{[c.hex() for c in schunks]} {k} -> {got!r}, one-shot {exp_text!r}')

    # --- stream writer
    buf = io.BytesIO()
    try:
        with lib('streamwriter', expect=(TypeError,)):
            w = codecs.getwriter('css')(buf, **kw)
            for c in tchunks:
                w.write(c)
    except TypeError as e:
        raise Violation('type:streamwriter-writes-str', f'{tchunks!r} {kw}: {e}')
    if buf.getvalue() != exp_bytes:
        if undetermined_text(t) and exp_bytes.startswith(buf.getvalue()):
            found.append(Violation('chunking:stream-end-undetermined:writer', f'{tchunks!r} {kw} -> {buf.getvalue()!r}, one-shot {exp_bytes!r}'))
        elif (exp_bytes.startswith(buf.getvalue()) and exp_bytes[len(buf.getvalue()):] in (b'\x0f', b'\x1b(B', b'~}')
              and t and ord(t[-1]) > 127):
            # the text ends in the shifted state of a stateful encoding and nobody tells the writer that the stream ends
            found.append(Violation('chunking:streamwriter-closing-shift-missing', f'{tchunks!r} {kw} -> {buf.getvalue()!r}, one-shot {exp_bytes!r}'))
        else:
            raise Violation('chunking:streamwriter', f'{tchunks!r} {kw} -> {buf.getvalue()!r}, one-shot {exp_bytes!r}')

    nt = interesting_cut(exp_bytes, case['cuts_b']) or interesting_cut(t, case['cuts_t'], True)
    ctx.event('enc:' + enc)
    if nt:
        ctx.event('cut-inside-bom-charset-or-multibyte')
    ctx.case([t, enc, given, case['cuts_b'], case['cuts_t']], nt,
             {'text': t, 'enc': enc, 'given': given, 'byte_chunks': [c.hex() for c in bchunks], 'text_chunks': tchunks})


# --------------------------------------------------------------------------- an encoding given together with force=False


@st.composite
def force_case(draw):
    t, enc = draw(text_enc())
    return {'text': t, 'enc': enc, 'rewrite': draw(st.booleans()), 'other': draw(st.sampled_from(sorted(ENC) + ['latin-1', 'utf-8', 'utf-16-le', 'koi8-r'])),
            'force': draw(st.booleans()), 'cuts_b': sorted(set(draw(st.lists(st.integers(0, 40), max_size=5))))}


def check_force(case, ctx):
    """decode(bytes, encoding=other, force=...): with force the given encoding is used whatever the bytes say, without it an explicit
    BOM / @charset in the bytes wins and the given encoding is the fallback; one-shot, incremental and stream decoders agree"""
    t, enc, other, force = case['text'], case['enc'], case['other'], case['force']
    try:
        data = (rewrite(t, enc) if case['rewrite'] else t).encode(enc)
    except (UnicodeEncodeError, LookupError):
        ctx.event('domain:not-encodable')
        return
    det, explicit = ref_detect(data, True)
    use = other if (force or not explicit) else det
    if canon(use).startswith('unknown:') or canon(use) == 'css':
        ctx.event('domain:unknown-encoding-named')
        return
    if canon(use) in ('utf-16', 'utf-32') and not data.startswith((b'\xff\xfe', b'\xfe\xff', b'\x00\x00\xfe\xff')):
        # Python itself disagrees here: one-shot decoding assumes the native byte order, the incremental decoders raise
        ctx.event('domain:utf-16/32 without BOM')
        return
    try:
        want = rewrite(data.decode(use), use)
    except UnicodeDecodeError:
        want = None
    kw = {'encoding': other, 'force': force}
    bchunks = split(data, case['cuts_b'])

    def attempt(what, call):
        try:
            with lib(what, expect=(UnicodeDecodeError,)):
                return call()
        except UnicodeDecodeError:
            return None

    got = attempt('decode-force', lambda: codecs.getdecoder('css')(data, **kw)[0])
    if got != want:
        raise Violation('force:one-shot', f'decode({data!r}, encoding={other!r}, force={force}) = {got!r}, expected {want!r} (decoded as {use})')
    inc = attempt('incremental-force', lambda: ''.join(
        [d.decode(c, i == len(bchunks) - 1) for d in [codecs.getincrementaldecoder('css')(**kw)] for i, c in enumerate(bchunks)]))
    if inc != want:
        raise Violation('force:incremental', f'{[c.hex() for c in bchunks]} encoding={other!r} force={force} -> {inc!r}, one-shot {want!r}')
    schunks = [c for c in bchunks if c]
    rd = attempt('reader-force', lambda: codecs.getreader('css')(ChunkStream(schunks), **kw).read())
    # (a stream that ends inside a character is not an error for a stream reader: the codecs API has no final flag)
    if rd != want and want is not None:
        open_end = want is not None and rd is not None and want.startswith(rd) and (undetermined_text(want) or ref_detect(data, False)[0] is None)
        if not open_end:
            raise Violation('force:streamreader', f'{[c.hex() for c in schunks]} encoding={other!r} force={force} -> {rd!r}, one-shot {want!r}')
        ctx.event('stream-end-undetermined (listed finding F07-2)')
    ctx.event('force=%s explicit=%s' % (force, explicit))
    ctx.case([data.hex(), other, force, case['cuts_b']], canon(use) != canon(enc) or (explicit and not force),
             {'bytes': data.hex(), 'given': other, 'force': force, 'decoded_as': use})


SUBS = [
    Sub('detect', check_detect, enumerate=detect_cases, shards_quick=8, shards_thorough=16),
    Sub('udetect', check_udetect, enumerate=udetect_cases, shards_quick=1, shards_thorough=1),
    Sub('roundtrip', check_roundtrip, strategy=rt_case(), quick=20000, thorough=800000, shards_quick=8),
    Sub('chunk', check_chunk, strategy=rt_case(), quick=30000, thorough=1200000, shards_quick=8),
    Sub('force', check_force, strategy=force_case(), quick=20000, thorough=600000, shards_quick=8),
]


SUBS.append(reported_sub('C07'))
