"""Abstract stylesheet model (ASM): Hypothesis strategies producing JSON-able dicts, rendering of one
meaning in many spellings, and the projection expected from a model.  Used by C02, C03, C04, C06, C13, C19."""

from hypothesis import strategies as st

import cssutils
from vlib import selmodel as S
from vlib.selmodel import Spell, esc_ident, mixcase

# --------------------------------------------------------------------------- values

IDENTS = ['red', 'blue', 'auto', 'none', 'inherit', 'solid', 'serif', 'Arial', 'bold', 'x-large', 'left', 'é-x', '_k']
UNITS = ['px', 'em', 'ex', 'cm', 'mm', 'in', 'pt', 'pc', 'deg', 's', 'ms', 'hz', 'dpi', 'rem', 'vw']
NUMS = ['0', '1', '2', '10', '0.5', '1.25', '100', '-1', '-0.5', '+2', '3.75', '10.5', '20.25', '-10.5', '100.75', '0.05', '-100.05']
STRINGS = ['', 'a', 'a b', 'x;y', 'it"s', "it's", '{', '}', 'é', 'a/*b*/c', 'url(x)', '@import', 'a\nb', ')']
URLS = ['x.png', 'a/b.css', 'http://example.com/i.gif?x=1#f', 'a b.png', "q'.png", 'p(1).png', 'é.png', '']
HASHES = ['#fff', '#FFF', '#a1b2c3', '#AbCdEf', '#000', '#123456']
FUNCS = ['attr', 'counter', 'f', 'x-fn', 'local', 'format']
PROPS = ['color', 'margin', 'margin-top', 'font', 'font-family', 'background', 'content', 'width', 'top', 'z-index',
         'x-custom', '-moz-x', 'src', 'border', 'left', 'size']


@st.composite
def component(draw, depth=0):
    k = draw(st.sampled_from(['ident', 'ident', 'num', 'num', 'dim', 'pct', 'string', 'url', 'hash', 'colorfn', 'func',
                              'calc', 'urange']))
    if k == 'ident':
        return {'t': 'ident', 'v': draw(st.sampled_from(IDENTS))}
    if k == 'num':
        return {'t': 'num', 'v': draw(st.sampled_from(NUMS)), 'unit': ''}
    if k == 'dim':
        v = draw(st.sampled_from(NUMS))
        u = draw(st.sampled_from(UNITS))
        if v.lstrip('+-') == '0' and u in ('px', 'em', 'ex', 'cm', 'mm', 'in', 'pt', 'pc'):
            v = '1'  # zero lengths lose their unit (C18); keep the model canonical
        if v == '0' or v.startswith('+'):
            v = v.lstrip('+') or '1'
        return {'t': 'num', 'v': v, 'unit': u}
    if k == 'pct':
        return {'t': 'num', 'v': draw(st.sampled_from(NUMS)).lstrip('+'), 'unit': '%'}
    if k == 'string':
        return {'t': 'string', 'v': draw(st.sampled_from(STRINGS))}
    if k == 'url':
        return {'t': 'url', 'v': draw(st.sampled_from(URLS))}
    if k == 'hash':
        return {'t': 'hash', 'v': draw(st.sampled_from(HASHES))}
    if k == 'colorfn':
        name = draw(st.sampled_from(['rgb', 'rgba', 'hsl', 'hsla']))
        if name.startswith('rgb'):
            args = [str(draw(st.integers(0, 255))) for _ in range(3)]
        else:
            args = [str(draw(st.integers(0, 360))), str(draw(st.integers(0, 100))) + '%', str(draw(st.integers(0, 100))) + '%']
        if name.endswith('a'):
            args.append(draw(st.sampled_from(['0', '1', '0.5'])))
        return {'t': 'colorfn', 'name': name, 'args': args}
    if k == 'func' and depth < 2:
        return {'t': 'func', 'name': draw(st.sampled_from(FUNCS)), 'args': draw(value(depth + 1, max_comps=3))}
    if k == 'calc' and depth == 0:
        n = draw(st.integers(2, 3))
        terms = [draw(st.sampled_from(['1px', '2em', '50%', '3', '10px'])) for _ in range(n)]
        ops = [draw(st.sampled_from(['+', '-', '*', '/'])) for _ in range(n - 1)]
        for i, o in enumerate(ops):
            if o in '*/':
                terms[i + 1] = draw(st.sampled_from(['2', '3']))
        return {'t': 'calc', 'terms': terms, 'ops': ops}
    if k == 'urange':
        return {'t': 'urange', 'v': draw(st.sampled_from(['U+0-7F', 'u+26', 'U+4??', 'U+0025-00FF']))}
    return {'t': 'ident', 'v': draw(st.sampled_from(IDENTS))}


@st.composite
def value(draw, depth=0, max_comps=4):
    n = draw(st.integers(1, max_comps))
    comps = [draw(component(depth)) for _ in range(n)]
    seps = [draw(st.sampled_from([' ', ' ', ',', '/'])) for _ in range(n - 1)]
    return {'comps': comps, 'seps': seps}


@st.composite
def block(draw, max_items=4, min_items=0):
    items = []
    for _ in range(draw(st.integers(min_items, max_items))):
        if draw(st.integers(0, 5)) == 0:
            items.append({'k': 'comment', 'text': draw(comment_text)})
        else:
            used = [i['name'] for i in items if i['k'] == 'decl']
            if used and draw(st.integers(0, 2)) == 0:
                # the same property again (cascade within the block)
                name = draw(st.sampled_from(used))
                important = draw(st.booleans())
            else:
                name = draw(st.sampled_from(PROPS))
                important = draw(st.integers(0, 3)) == 0
            items.append({'k': 'decl', 'name': name, 'value': draw(value()), 'important': important})
    return items


comment_text = st.sampled_from([' c ', '', 'x', ' a { b: c } ', ' é ', '*', ' multi\nline ', '/', ' @import "x"; ', ';'])


# --------------------------------------------------------------------------- statements

MEDIA_TYPES = ['all', 'print', 'screen', 'tv', 'handheld', 'projection']
MQ_FEATURES = ['width', 'min-width', 'max-height', 'color', 'orientation', 'min-resolution']
MQ_VALUES = ['10px', '2', 'landscape', '300dpi', '1.5em']


@st.composite
def mquery(draw):
    k = draw(st.integers(0, 5))
    if k < 3:
        return {'pre': None, 'type': draw(st.sampled_from(MEDIA_TYPES[1:])), 'exprs': []}
    exprs = [[draw(st.sampled_from(MQ_FEATURES)), draw(st.one_of(st.none(), st.sampled_from(MQ_VALUES)))]
             for _ in range(draw(st.integers(1, 2)))]
    if k == 5:
        return {'pre': None, 'type': None, 'exprs': exprs}
    return {'pre': draw(st.sampled_from([None, 'not', 'only'])), 'type': draw(st.sampled_from(MEDIA_TYPES[1:])), 'exprs': exprs}


@st.composite
def mqlist(draw, min_size=1):
    qs = draw(st.lists(mquery(), min_size=min_size, max_size=3))
    # keep the list canonical: a simple type only once (C17 covers canonicalisation)
    out, seen = [], set()
    for q in qs:
        key = q['type'] if (q['pre'] is None and not q['exprs']) else None
        if key is not None:
            if key in seen:
                continue
            seen.add(key)
        out.append(q)
    return out


@st.composite
def style_rule(draw, nslevel=0):
    return {'k': 'style', 'sels': draw(st.lists(S.selector(nslevel, max_compounds=2), min_size=1, max_size=3)),
            'block': draw(block())}


MARGINS = ['@top-left', '@top-center', '@top-right', '@bottom-left', '@bottom-center', '@left-middle', '@right-top']


@st.composite
def page_rule(draw):
    # margin boxes: distinct names (boxes of one name are merged by design), and no comments inside them
    # (cssutils drops those: listed finding F02-2, probed by the literal sub of C02)
    names = draw(st.lists(st.sampled_from(MARGINS), max_size=2, unique=True))
    margins = []
    def no_calc(item):  # white space is not preserved inside margin boxes (finding F02-3), calc() needs it
        return item['k'] == 'decl' and not any(c['t'] == 'calc' for c in item['value']['comps'])

    for n in names:
        margins.append({'name': n, 'block': [i for i in draw(block(2)) if no_calc(i)]})
    return {'k': 'page', 'name': draw(st.sampled_from([None, None, 'cover', 'toc'])),
            'pseudo': draw(st.sampled_from([None, 'first', 'left', 'right'])), 'block': draw(block(3)),
            'margins': margins}


UNKNOWN_KW = ['@foo', '@x-bar', '@keyframes', '@supports', '@document']
UNKNOWN_PRELUDE = ['', 'a', 'a b', '"s"', 'url(x)', '(a: b)', 'x, y', '1px']
UNKNOWN_BLOCK = [None, '', 'a { b: c }', 'from { top: 0 } to { top: 1px }', 'x: y', '"s" [a] (b)']


@st.composite
def unknown_rule(draw):
    return {'k': 'unknown', 'kw': draw(st.sampled_from(UNKNOWN_KW)), 'prelude': draw(st.sampled_from(UNKNOWN_PRELUDE)),
            'block': draw(st.sampled_from(UNKNOWN_BLOCK))}


comment_stmt = comment_text.map(lambda t: {'k': 'comment', 'text': t})


def media_rule(nslevel=0, depth=0):
    inner = [style_rule(nslevel), style_rule(nslevel), comment_stmt, page_rule(), unknown_rule()]
    if depth < 2:
        inner.append(st.deferred(lambda: media_rule(nslevel, depth + 1)))
    return st.builds(lambda q, rules: {'k': 'media', 'queries': q, 'rules': rules},
                     mqlist(), st.lists(st.one_of(*inner), min_size=0, max_size=3))


def fontface_rule():
    return block(3).map(lambda b: {'k': 'fontface', 'block': b})


@st.composite
def sheet(draw, max_body=4, allow_ns=True):
    nslevel = draw(st.integers(0, 2)) if allow_ns else 0
    stmts = []
    if draw(st.integers(0, 3)) == 0:
        stmts.append({'k': 'charset', 'enc': draw(st.sampled_from(['utf-8', 'UTF-8', 'iso-8859-1', 'ascii']))})
    for _ in range(draw(st.integers(0, 2))):
        if draw(st.integers(0, 3)) == 0:
            stmts.append(draw(comment_stmt))
        stmts.append({'k': 'import', 'href': draw(st.sampled_from(['a.css', 'sub/b.css', 'http://example.com/c.css', 'x y.css'])),
                      'form': draw(st.sampled_from(['string', 'url'])), 'media': draw(mqlist(min_size=0)),
                      'name': draw(st.sampled_from([None, None, 'title', 'a b']))})
    if nslevel:
        if draw(st.booleans()):
            stmts.append(draw(comment_stmt))
        for p, u in sorted(S.PREFIXES.items()):
            stmts.append({'k': 'namespace', 'prefix': p, 'uri': u})
        if nslevel == 2:
            stmts.append({'k': 'namespace', 'prefix': '', 'uri': 'http://default.example/ns'})
    body = st.one_of(style_rule(nslevel), style_rule(nslevel), media_rule(nslevel), page_rule(), fontface_rule(),
                     unknown_rule(), comment_stmt)
    stmts.extend(draw(st.lists(body, min_size=1, max_size=max_body)))
    return {'nslevel': nslevel, 'stmts': stmts}


# --------------------------------------------------------------------------- rendering

MAY = ['', '', ' ', '\n', '\t', ' /*f*/ ', '/*f*/', '\r\n', '  ']
MUST = [' ', ' ', '\n', '  ', '\t', ' /*f*/ ', '/*f*/ ', '\r\n']
MAY_NC = ['', '', ' ', '\n', '\t', '\r\n']
MUST_NC = [' ', ' ', '\n', '  ', '\t']


class R:
    """renderer bound to a spelling source; may()/must() give gap texts"""

    def __init__(self, seed=0, comments=True):
        self.sp = seed if isinstance(seed, Spell) else Spell(seed)
        self.comments = comments

    def may(self):
        return self.sp.pick(MAY if self.comments else MAY_NC) if self.sp.seed else ''

    def must(self):
        return self.sp.pick(MUST if self.comments else MUST_NC) if self.sp.seed else ' '

    def may_nc(self):
        return self.sp.pick(MAY_NC) if self.sp.seed else ''

    def nl(self):
        return self.sp.pick(['\n', '\n', ' ', '', '\r\n', '\n\n']) if self.sp.seed else '\n'


def esc_string(content, r):
    q = r.sp.pick(['"', "'"]) if r.sp.seed else '"'
    out = []
    for ch in content:
        if ch == q:
            out.append(r.sp.pick(['\\' + q, '\\%x ' % ord(ch)]) if r.sp.seed else '\\' + q)
        elif ch in '\n\r\f':
            out.append('\\%x ' % ord(ch))
        elif r.sp.chance(12):
            out.append('\\%x ' % ord(ch))
        else:
            out.append(ch)
    return q + ''.join(out) + q


URL_BARE_OK = set('abcdefghijklmnopqrstuvwxyzABCDEFGHIJKLMNOPQRSTUVWXYZ0123456789!#$%&*+-./:<=>?@[]^_`{|}~é')


def render_url(content, r):
    head = mixcase('url', r.sp) + '('
    bare_ok = content and all(c in URL_BARE_OK for c in content)
    if bare_ok and (not r.sp.seed or r.sp.chance(2)):
        return head + r.may_nc() + content + r.may_nc() + ')'
    return head + r.may_nc() + esc_string(content, r) + r.may_nc() + ')'


def render_component(c, r):
    t = c['t']
    if t == 'ident':
        return esc_ident(c['v'], r.sp)
    if t == 'num':
        u = c['unit']
        return c['v'] + (mixcase(u, r.sp) if u and u != '%' else u)
    if t == 'string':
        return esc_string(c['v'], r)
    if t == 'url':
        return render_url(c['v'], r)
    if t == 'hash':
        return c['v']
    if t == 'colorfn':
        sep = ',' + r.may_nc()
        return mixcase(c['name'], r.sp) + '(' + r.may() + (r.may_nc() + sep).join(c['args']) + r.may() + ')'
    if t == 'func':
        return mixcase(c['name'], r.sp) + '(' + r.may() + render_value(c['args'], r) + r.may() + ')'
    if t == 'calc':
        # no comments inside calc(): listed finding F02-1 (probed by the literal sub of C02)
        nc = lambda: r.sp.pick(MUST_NC) if r.sp.seed else ' '  # noqa: E731
        out = c['terms'][0]
        for o, term in zip(c['ops'], c['terms'][1:]):
            out += nc() + o + nc() + term
        return mixcase('calc', r.sp) + '(' + r.may_nc() + out + r.may_nc() + ')'
    if t == 'urange':
        return c['v']
    raise ValueError(t)


def render_value(v, r):
    out = render_component(v['comps'][0], r)
    for sep, c in zip(v['seps'], v['comps'][1:]):
        if sep == ' ':
            out += r.must()
        else:
            out += r.may() + sep + r.may()
        out += render_component(c, r)
    return out


def spell_propname(name, r):
    if not r.sp.seed:
        return name
    k = r.sp.pick([0, 0, 1, 2, 3, 4])
    if k == 1:
        return name.upper()
    if k == 2:
        return name.capitalize()
    if k == 3:  # simple escape before a non-hex letter
        for i, ch in enumerate(name):
            if ch.isalpha() and ch.lower() not in 'abcdef':
                return name[:i] + '\\' + name[i:]
        return name
    if k == 4:
        return esc_ident(name, r.sp)
    return name


def render_decl(d, r):
    out = spell_propname(d['name'], r) + r.may() + ':' + r.may() + render_value(d['value'], r)
    if d['important']:
        out += r.may() + '!' + r.may() + mixcase('important', r.sp)
    return out


def render_block_items(items, r, trailing_semicolon=None):
    out = ''
    n = len(items)
    for i, it in enumerate(items):
        if it['k'] == 'comment':
            out += r.nl() + '/*' + it['text'] + '*/'
        elif it['k'] == 'raw':  # injected garbage (C04), always terminated
            # (an at-rule that ends with its block needs no ';': what follows directly is the next item)
            out += r.nl() + it['text'] + ('' if it.get('noterm') else ';')
        else:
            out += r.nl() + render_decl(it, r)
            last_item = i == n - 1  # a comment after a declaration without ';' would belong to that declaration
            if not last_item or (r.sp.seed and r.sp.chance(2)):
                out += r.may_nc() + ';'
                if r.sp.chance(8):
                    out += r.may_nc() + ';'
    return out + r.nl()


def render_mquery(q, r):
    parts = []
    if q['pre']:
        parts.append(mixcase(q['pre'], r.sp))
    if q['type']:
        parts.append(mixcase(q['type'], r.sp))
    out = r.must().join(parts)
    for j, (f, v) in enumerate(q['exprs']):
        if out:
            out += r.must() + mixcase('and', r.sp) + r.must()
        ex = '(' + r.may() + f + r.may()
        if v is not None:
            ex += ':' + r.may() + v + r.may()
        out += ex + ')'
    return out


def render_mqlist(qs, r):
    return (r.may() + ',' + r.may()).join(render_mquery(q, r) for q in qs)


def spell_atkw(kw, r):
    """@media -> @MEDIA, @m\\edia ..."""
    if not r.sp.seed:
        return kw
    k = r.sp.pick([0, 0, 1, 2, 3])
    name = kw[1:]
    if k == 1:
        return '@' + name.upper()
    if k == 2:
        return '@' + name.capitalize()
    if k == 3:
        return '@' + esc_ident(name, r.sp)
    return kw


def render_stmt(s, r):
    k = s['k']
    if k == 'raw':  # injected garbage (C04)
        return s['text']
    if k == 'comment':
        return '/*' + s['text'] + '*/'
    if k == 'charset':
        return '@charset "' + s['enc'] + '";'
    if k == 'import':
        out = spell_atkw('@import', r) + r.must()
        out += esc_string(s['href'], r) if s['form'] == 'string' else render_url(s['href'], r)
        if s['media']:
            out += r.must() + render_mqlist(s['media'], r)
        if s['name'] is not None:
            out += r.must() + esc_string(s['name'], r)
        return out + r.may() + ';'
    if k == 'namespace':
        out = spell_atkw('@namespace', r) + r.must()
        if s['prefix']:
            out += s['prefix'] + r.must()
        form = r.sp.pick(['string', 'url']) if r.sp.seed else 'string'
        out += esc_string(s['uri'], r) if form == 'string' else render_url(s['uri'], r)
        return out + r.may() + ';'
    if k == 'style':
        sels = (r.may() + ',' + r.may()).join(S.render_selector(x, r.sp) for x in s['sels'])
        return sels + r.may_nc() + '{' + render_block_items(s['block'], r) + '}'
    if k == 'media':
        out = spell_atkw('@media', r) + r.must() + render_mqlist(s['queries'], r) + r.may_nc() + '{' + r.nl()
        for x in s['rules']:
            out += render_stmt(x, r) + r.nl()
        return out + '}'
    if k == 'page':
        out = spell_atkw('@page', r)
        sel = (s['name'] or '') + (':' + mixcase(s['pseudo'], r.sp) if s['pseudo'] else '')
        if sel:
            out += r.must() + sel
        out += r.may_nc() + '{' + render_block_items(s['block'], r, True)
        for m in s['margins']:
            # a declaration before a margin box needs its semicolon
            if out.rstrip().endswith('}') is False and any(i['k'] == 'decl' for i in s['block']) and not out.rstrip().endswith((';', '{', '*/')):
                out += ';'
            out += r.nl() + spell_atkw(m['name'], r) + r.may_nc() + '{' + render_block_items(m['block'], r) + '}' + r.nl()
        return out + '}'
    if k == 'fontface':
        return spell_atkw('@font-face', r) + r.may_nc() + '{' + render_block_items(s['block'], r) + '}'
    if k == 'unknown':
        out = s['kw']
        if s['prelude']:
            out += r.must() + s['prelude']
        if s['block'] is None:
            return out + r.may_nc() + ';'
        return out + r.may_nc() + '{' + r.may_nc() + s['block'] + r.may_nc() + '}'
    raise ValueError(k)


def render_sheet(m, seed=0, comments=True):
    r = R(seed, comments)
    out = ''
    for i, s in enumerate(m['stmts']):
        if s['k'] == 'charset':
            out += render_stmt(s, r) + r.nl()  # must be first, exactly spelled
        else:
            out += (r.may_nc() if i else '') + render_stmt(s, r) + r.nl()
    return out


# --------------------------------------------------------------------------- expected projection of a model


def vtoks(text):
    """normalised, comment- and layout-free token list of a value / prelude text"""
    out = []
    for t in cssutils.tokenize2.Tokenizer().tokenize(text):
        typ, val = t[0], t[1]
        if typ == 'COMMENT':
            continue
        if typ == 'S':
            if out and out[-1] != ('S', ' '):
                out.append(('S', ' '))
            continue
        if typ in ('DIMENSION', 'FUNCTION', 'PERCENTAGE', 'UNICODE-RANGE'):
            val = val.lower()
        elif typ == 'STRING':
            val = cssutils.helper.stringvalue(val)
        elif typ == 'URI':
            typ, val = 'URI', cssutils.helper.urivalue(val)
        out.append((typ, val))
    # white space next to punctuation is layout
    res = []
    for i, t in enumerate(out):
        if t == ('S', ' '):
            prev = out[i - 1] if i else None
            nxt = out[i + 1] if i + 1 < len(out) else None
            if prev is None or nxt is None:
                continue
            if (prev[0] == 'CHAR' and prev[1] in ',/(:;{}[') or prev[0] == 'FUNCTION':
                continue
            if nxt[0] == 'CHAR' and nxt[1] in ',/);{}]:':
                continue
        res.append(t)
    return tuple(res)


def exp_value(v):
    return vtoks(render_value(v, R(0)))


def exp_block(items, with_comments=True):
    out = []
    for it in items:
        if it['k'] == 'comment':
            if with_comments:
                out.append(('comment', it['text']))
        else:
            out.append(('decl', it['name'], exp_value(it['value']), 'important' if it['important'] else ''))
    return tuple(out)


def exp_mq(q):
    return vtoks(render_mquery(q, R(0)).lower())


def exp_stmt(s, with_comments=True):
    k = s['k']
    if k == 'comment':
        return ('comment', s['text']) if with_comments else None
    if k == 'charset':
        return ('charset', s['enc'].lower())
    if k == 'import':
        qs = tuple(exp_mq(q) for q in s['media']) or (vtoks('all'),)
        return ('import', s['href'], qs, s['name'])
    if k == 'namespace':
        return ('namespace', s['prefix'], s['uri'])
    if k == 'style':
        return ('style', tuple(tuple(S.struct_of_model(x)) for x in s['sels']),
                tuple(tuple(S.specificity(x)) for x in s['sels']), exp_block(s['block'], with_comments))
    if k == 'media':
        rules = tuple(x for x in (exp_stmt(r, with_comments) for r in s['rules']) if x is not None)
        return ('media', tuple(exp_mq(q) for q in s['queries']), rules)
    if k == 'page':
        sel = (s['name'] or '') + (':' + s['pseudo'] if s['pseudo'] else '')
        spec = (1 if s['name'] else 0, 1 if s['pseudo'] == 'first' else 0, 1 if s['pseudo'] in ('left', 'right') else 0)
        return ('page', sel, spec, exp_block(s['block'], with_comments),
                tuple(('margin', m['name'], exp_block(m['block'], with_comments)) for m in s['margins']))
    if k == 'fontface':
        return ('fontface', exp_block(s['block'], with_comments))
    if k == 'unknown':
        text = s['kw'] + ' ' + s['prelude'] + (';' if s['block'] is None else '{' + s['block'] + '}')
        return ('unknown', tuple(t for t in vtoks(text) if t[0] != 'S'))
    raise ValueError(k)


def exp_sheet(m, with_comments=True):
    return tuple(x for x in (exp_stmt(s, with_comments) for s in m['stmts']) if x is not None)


def model_nontrivial(m):
    kinds = {s['k'] for s in m['stmts'] if s['k'] != 'comment'}
    multi = any(len(it['value']['comps']) >= 2 for s in m['stmts'] if 'block' in s and isinstance(s.get('block'), list)
                for it in s['block'] if it['k'] == 'decl')
    return len(kinds) >= 2 or multi
