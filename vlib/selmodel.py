"""Abstract selector model: Hypothesis strategies, rendering in many spellings, expected structure and
specificity computed from the model (never from the library)."""

from hypothesis import strategies as st

import cssutils

ELEMENTS = ['a', 'b', 'div', 'p', 'h1', 'li', 'td', 'circle', 'x-y', 'Foo', 'é', '_u', 'u', 'u', 'U', 'dd', 'abbr', 'code']  # (u+a, u+dd look like unicode ranges)
NAMES = ['a', 'b', 'c1', 'main', 'x-y', 'Top', 'é', '_z', 'n0', 'aabbcc', 'ffeedd', 'abc', 'fff', 'u']  # (ids that look like colours)
ATTRS = ['href', 'title', 'lang', 'data-x', 'Type']
ATTRVALS = ['en', 'x', 'a-b', 'http://x/y', 'a b', 'V1', '']
OPS = [None, '=', '~=', '|=', '^=', '$=', '*=']
PCLASSES = ['hover', 'link', 'visited', 'first-child', 'last-child', 'checked', 'root', 'empty', 'target', 'focus']
PFUNCS = [('nth-child', 'anb'), ('nth-last-child', 'anb'), ('nth-of-type', 'anb'), ('lang', 'ident'), ('x-func', 'string')]
ANB = ['odd', 'even', '2n+1', '2n', 'n', '-n+3', '3', '+2n-1', '10n+9', '-2n']
PELEMS = ['before', 'after', 'first-line', 'first-letter', 'selection', 'x-pe']
LEGACY_PE = ('before', 'after', 'first-line', 'first-letter')
PREFIXES = {'p': 'http://p.example/ns', 'svg': 'http://www.w3.org/2000/svg'}


def ns_strategy(nslevel):
    """nslevel 0: no namespaces; 1: prefixes p, svg may be used; 2: also a default namespace exists"""
    if nslevel == 0:
        return st.just(None)
    return st.sampled_from([None, None, None, 'p', 'svg', '*', ''])


@st.composite
def simple_part(draw, nslevel=0, in_not=False):
    k = draw(st.sampled_from(['id', 'class', 'class', 'attr', 'pc'] + ([] if in_not else ['pcf', 'not'])))
    if k == 'id':
        return {'k': 'id', 'v': draw(st.sampled_from(NAMES))}
    if k == 'class':
        return {'k': 'class', 'v': draw(st.sampled_from(NAMES))}
    if k == 'attr':
        op = draw(st.sampled_from(OPS))
        ns = draw(ns_strategy(nslevel))
        if ns == '*' and False:
            ns = None
        part = {'k': 'attr', 'ns': ns, 'name': draw(st.sampled_from(ATTRS)), 'op': op}
        if op:
            val = draw(st.sampled_from(ATTRVALS))
            identlike = val and all(c.isalnum() or c in '-_' for c in val) and not val[0].isdigit()
            part['val'] = val
            part['form'] = draw(st.sampled_from(['ident', 'dq', 'sq'])) if identlike else draw(st.sampled_from(['dq', 'sq']))
        return part
    if k == 'pc':
        return {'k': 'pc', 'name': draw(st.sampled_from(PCLASSES))}
    if k == 'pcf':
        name, kind = draw(st.sampled_from(PFUNCS))
        if kind == 'anb':
            arg = draw(st.sampled_from(ANB))
        elif kind == 'ident':
            arg = draw(st.sampled_from(['en', 'de-DE', 'fr']))
        else:
            arg = '"' + draw(st.sampled_from(['s', 'a b'])) + '"'
        return {'k': 'pcf', 'name': name, 'arg': arg, 'argkind': kind}
    # negation
    arg = draw(st.one_of(
        simple_part(nslevel, in_not=True),
        st.builds(lambda ns, n: {'k': 'type', 'ns': ns, 'name': n}, ns_strategy(nslevel), st.sampled_from(ELEMENTS + ['*'])),
    ))
    return {'k': 'not', 'arg': arg}


@st.composite
def compound(draw, nslevel=0, last=False):
    typ = None
    if draw(st.integers(0, 3)):
        typ = {'k': 'type', 'ns': draw(ns_strategy(nslevel)), 'name': draw(st.sampled_from(ELEMENTS + ['*']))}
    parts = draw(st.lists(simple_part(nslevel), min_size=0 if typ else 1, max_size=3))
    pe = None
    if last and draw(st.integers(0, 3)) == 0:
        name = draw(st.sampled_from(PELEMS))
        pe = {'name': name, 'colons': draw(st.sampled_from([1, 2])) if name in LEGACY_PE else 2}
    return {'type': typ, 'parts': parts, 'pe': pe}


@st.composite
def selector(draw, nslevel=0, max_compounds=3):
    n = draw(st.integers(1, max_compounds))
    comps = [draw(compound(nslevel, last=(i == n - 1))) for i in range(n)]
    combs = [draw(st.sampled_from([' ', ' ', '>', '+', '~'])) for _ in range(n - 1)]
    return {'compounds': comps, 'combs': combs}


# --------------------------------------------------------------------------- expected values


def specificity(sel):
    a = b = c = 0

    def part(p):
        nonlocal a, b, c
        if p['k'] == 'id':
            a += 1
        elif p['k'] in ('class', 'attr'):
            b += 1
        elif p['k'] == 'type':
            if p['name'] != '*':
                c += 1
        elif p['k'] == 'not':
            part(p['arg'])

    for comp in sel['compounds']:
        if comp['type']:
            part(comp['type'])
        for p in comp['parts']:
            part(p)
        if comp['pe']:
            c += 1
    return (0, a, b, c)


def nontrivial(sel):
    kinds = {p['k'] for comp in sel['compounds'] for p in comp['parts']}
    return len(sel['compounds']) >= 2 and bool(kinds & {'not', 'attr', 'pcf'})


def uses_ns(sel):
    used = set()

    def part(p):
        if p['k'] in ('type', 'attr') and p.get('ns') not in (None,):
            used.add(p['ns'])
        if p['k'] == 'not':
            part(p['arg'])

    for comp in sel['compounds']:
        if comp['type']:
            part(comp['type'])
        for p in comp['parts']:
            part(p)
    return used


# --------------------------------------------------------------------------- rendering


class Spell:
    """deterministic source of spelling choices driven by an integer seed (0 = canonical)"""

    def __init__(self, seed):
        self.seed = seed
        self.n = 0

    def pick(self, options):
        if not self.seed:
            return options[0]
        self.n += 1
        x = (self.seed * 2654435761 + self.n * 40503) & 0xFFFFFFFF
        x ^= x >> 13
        return options[(x * 7919 >> 7) % len(options)]

    def chance(self, k):
        """True about 1 in k times (never when canonical)"""
        if not self.seed:
            return False
        return self.pick(list(range(k))) == 0

    def inname(self):
        """a comment between the two tokens of ONE simple selector (':' name, '.' name, prefix '|' name), about 1 in 12 times;
        drawn from a stream of its own so that the other spelling choices of a seed stay what they were"""
        if not self.seed:
            return ''
        self.m = getattr(self, 'm', 0) + 1
        x = (self.seed * 2246822519 + self.m * 3266489917) & 0xFFFFFFFF
        x ^= x >> 15
        return ['/**/', '/*c*/'][x & 1] if (x >> 3) % 12 == 0 else ''


WS = [' ', ' ', '  ', '\n', '\t', ' /*c*/ ', '\r\n', '/*c*/ ']
OPTWS = ['', '', ' ', ' /*c*/ ', '\n', '/*c*/']
OPTWS_NOCOMMENT = ['', '', ' ', '\n', '\t']
HEXTERM = [' ', '\t', '\n']


def esc_ident(name, sp, allow=True):
    """spell an identifier, possibly with hex escapes of its (ordinary) characters"""
    if not allow or not sp.seed:
        return name
    out = []
    for i, ch in enumerate(name):
        if sp.chance(9) and ch not in '-':
            digits = '%x' % ord(ch)
            pad = sp.pick([len(digits), len(digits), 6, 4 if len(digits) <= 4 else 6])
            d = digits.rjust(pad, '0')
            if sp.chance(2):
                d = d.upper()
            nxt = name[i + 1] if i + 1 < len(name) else ''
            if len(d) == 6 and nxt and sp.chance(2):
                term = ''
            else:
                term = sp.pick(HEXTERM)
            out.append('\\' + d + term)
        else:
            out.append(ch)
    return ''.join(out)


def mixcase(s, sp):
    if not sp.seed:
        return s
    k = sp.pick([0, 0, 1, 2])
    # CSS is case-insensitive in ASCII only: never touch other letters (str.upper maps U+017F to S, ...)
    if k == 1:
        return ''.join(c.upper() if c.isascii() else c for c in s)
    if k == 2:
        return ''.join((c.upper() if i == 0 else c.lower()) if c.isascii() else c for i, c in enumerate(s))
    return s


def render_part(p, sp, prefixmap=None):
    k = p['k']
    if k == 'id':
        return '#' + esc_ident(p['v'], sp)
    if k == 'class':
        return '.' + sp.inname() + esc_ident(p['v'], sp)
    if k == 'type':
        name = p['name'] if p['name'] == '*' else esc_ident(p['name'], sp)
        if p['ns'] is None:
            return name
        return p['ns'] + (sp.inname() if p['ns'] else '') + '|' + sp.inname() + name
    if k == 'attr':
        w = lambda: sp.pick(OPTWS)  # noqa: E731
        name = (p['ns'] + '|' if p['ns'] is not None else '') + p['name']
        out = '[' + w() + name + w()
        if p['op']:
            if p['form'] == 'ident':
                val = esc_ident(p['val'], sp)
            else:
                q = '"' if p['form'] == 'dq' else "'"
                if sp.chance(3):
                    q = "'" if q == '"' else '"'
                val = q + p['val'] + q
            out += p['op'] + w() + val + w()
        return out + ']'
    if k == 'pc':
        return ':' + sp.inname() + mixcase(p['name'], sp)
    if k == 'pcf':
        w = lambda: sp.pick(OPTWS)  # noqa: E731
        arg = p['arg']
        if p['argkind'] == 'anb' and sp.chance(3):
            arg = arg.replace('+', ' + ') if '+' in arg[1:] else arg
        if p['argkind'] == 'anb' and sp.chance(4):
            arg = arg.upper()
        return ':' + sp.inname() + mixcase(p['name'], sp) + '(' + w() + arg + w() + ')'
    if k == 'not':
        w = lambda: sp.pick(OPTWS)  # noqa: E731
        return ':' + sp.inname() + mixcase('not', sp) + '(' + w() + render_part(p['arg'], sp) + w() + ')'
    raise ValueError(k)


def render_compound(c, sp):
    out = ''
    if c['type']:
        out += render_part(c['type'], sp)
    for p in c['parts']:
        out += render_part(p, sp)
    if c['pe']:
        out += ':' * c['pe']['colons'] + sp.inname() + mixcase(c['pe']['name'], sp)
    return out


def render_selector(sel, seed=0):
    sp = seed if isinstance(seed, Spell) else Spell(seed)
    out = render_compound(sel['compounds'][0], sp)
    for comb, comp in zip(sel['combs'], sel['compounds'][1:]):
        if comb == ' ':
            out += sp.pick(WS)
        else:
            out += sp.pick(OPTWS) + comb + sp.pick(OPTWS)
        out += render_compound(comp, sp)
    return out


# --------------------------------------------------------------------------- structure of a selector text


def struct_of_text(text):
    """comment- and spelling-independent list describing the simple selectors and combinators of a selector text"""
    raw = [(t[0], t[1]) for t in cssutils.tokenize2.Tokenizer().tokenize(text) if t[0] != 'COMMENT']
    # pass 1: merge namespace prefixes:  (IDENT|*)? '|' (IDENT|*)  ->  NAME
    u = []
    i = 0
    while i < len(raw):
        typ, val = raw[i]
        if typ == 'CHAR' and val == '|' and i + 1 < len(raw) and (raw[i + 1][0] == 'IDENT' or raw[i + 1][1] == '*'):
            prefix = ''
            if u and (u[-1][0] == 'IDENT' or u[-1] == ('CHAR', '*')):
                prefix = u.pop()[1]
            u.append(('NAME', prefix + '|' + raw[i + 1][1]))
            i += 2
            continue
        u.append((typ, val))
        i += 1
    # pass 2
    out = []
    depth_b = depth_p = 0
    pending_s = False
    parg = None
    colons = ''
    ops = ('=', '~=', '|=', '^=', '$=', '*=')
    for typ, val in u:
        if parg is not None:
            if val == ')' and typ == 'CHAR':
                out.append('(' + parg.lower() + ')')
                parg = None
            elif typ != 'S':
                parg += val
            continue
        if typ == 'S':
            if depth_b == 0 and depth_p == 0:
                pending_s = True
            continue
        if depth_b == 0 and depth_p == 0 and typ == 'CHAR' and val in '>+~':
            out.append(val)
            pending_s = False
            continue
        if pending_s and out and out[-1] not in ('>', '+', '~', ' '):
            out.append(' ')
        pending_s = False
        if typ == 'CHAR' and val == ':':
            colons += ':'
            continue
        if colons:
            if typ == 'FUNCTION':
                name = val.lower()
                if name == 'not(':
                    out.append(colons + 'not(')
                    depth_p += 1
                else:
                    out.append(colons + name[:-1])
                    parg = ''
            else:
                out.append(colons + val.lower())
            colons = ''
            continue
        if typ == 'CHAR' and val == '[':
            depth_b += 1
            out.append('[')
        elif typ == 'CHAR' and val == ']':
            depth_b -= 1
            out.append(']')
        elif typ == 'CHAR' and val == ')':
            depth_p -= 1
            out.append(')')
        elif typ == 'STRING':
            out.append(('str', val[1:-1]))
        elif typ in ('INCLUDES', 'DASHMATCH', 'PREFIXMATCH', 'SUFFIXMATCH', 'SUBSTRINGMATCH'):
            out.append(val)
        elif typ == 'IDENT' and depth_b and out and out[-1] in ops:
            out.append(('str', val))
        elif typ == 'IDENT' and out and out[-1] == '.':
            out[-1] = '.' + val
        elif typ == 'NAME' and depth_b and val.startswith('|'):
            out.append(val[1:])  # [|att] is the same as [att]
        else:
            out.append(val)
    return out


def struct_of_model(sel, prefix_of=None):
    """expected structure; prefix_of maps a model prefix to the prefix used in the text (identity by default)"""
    pf = prefix_of or (lambda x: x)
    out = []

    def part(p):
        k = p['k']
        if k == 'id':
            out.append('#' + p['v'])
        elif k == 'class':
            out.append('.' + p['v'])
        elif k == 'type':
            out.append((pf(p['ns']) + '|' if p['ns'] is not None else '') + p['name'])
        elif k == 'attr':
            out.append('[')
            out.append((pf(p['ns']) + '|' if p['ns'] not in (None, '') else '') + p['name'])
            if p['op']:
                out.append(p['op'])
                out.append(('str', p['val']))
            out.append(']')
        elif k == 'pc':
            out.append(':' + p['name'])
        elif k == 'pcf':
            out.append(':' + p['name'])
            arg = p['arg'] if p['argkind'] == 'string' else p['arg'].replace(' ', '')
            out.append('(' + arg.lower() + ')')
        elif k == 'not':
            out.append(':not(')
            part(p['arg'])
            out.append(')')

    for i, comp in enumerate(sel['compounds']):
        if i:
            out.append(sel['combs'][i - 1])
        if comp['type']:
            part(comp['type'])
        for p in comp['parts']:
            part(p)
        if comp['pe']:
            out.append(':' * comp['pe']['colons'] + comp['pe']['name'])
    return out


def norm_struct(s):
    """serialiser freedom that does not change meaning: one- vs two-colon legacy pseudo-elements are kept as
    written by cssutils, so nothing to normalise there; strings compare by content"""
    return [x if not isinstance(x, tuple) else ('str', x[1]) for x in s]
