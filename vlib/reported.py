"""Deterministic programs written for defects that were reported against a property (second defect hunt).

Every file /verif/reported/<PID>/<name>.py is a stand-alone program that exits 0 when the behaviour the property
promises holds for the inputs it names and non-zero (failed assertion) when it does not.  They are no generators:
they pin the exact input of a listed finding (KNOWN-FINDING while it is open, regression alarm once it is fixed).
"""

import glob
import os
import subprocess
import sys

from vlib.runner import REPO, VERIF, Sub, Violation


def _cases(pid):
    def cases(tier):
        for f in sorted(glob.glob(os.path.join(VERIF, 'reported', pid, '*.py'))):
            yield {'program': os.path.basename(f)[:-3]}
    return cases


def _check(pid):
    def check(case, ctx):
        path = os.path.join(VERIF, 'reported', pid, case['program'] + '.py')
        env = dict(os.environ, VERIF_REPO=REPO, PYTHONPATH=REPO, PYTHONHASHSEED='0')
        try:
            r = subprocess.run([sys.executable, '-B', path], cwd=REPO, env=env, capture_output=True, text=True, timeout=300)
        except subprocess.TimeoutExpired:
            raise Violation('reported:' + case['program'], 'no result after 300 s')
        ctx.case(case['program'], True, {'program': case['program'], 'exit': r.returncode})
        if r.returncode != 0:
            lines = r.stderr.strip().splitlines() or r.stdout.strip().splitlines() or ['exit %d' % r.returncode]
            tail = next((ln for ln in reversed(lines) if 'Error' in ln or 'assert' in ln.lower()), lines[-1])
            raise Violation('reported:' + case['program'], tail[:600])
    return check


def reported_sub(pid):
    return Sub('reported', _check(pid), enumerate=_cases(pid), shards_quick=4, shards_thorough=4)
