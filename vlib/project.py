"""DOM -> hashable projection through public accessors (same shape as cssmodel.exp_sheet)."""

import cssutils
from vlib import selmodel as S
from vlib.cssmodel import vtoks


def comment_text(c):
    t = c.cssText
    return t[2:-2] if t.startswith('/*') and t.endswith('*/') else t


def p_block(style, with_comments=True):
    out = []
    for child in style.children():
        if isinstance(child, cssutils.css.Property):
            out.append(('decl', child.name, vtoks(child.value), child.priority))
        elif isinstance(child, cssutils.css.CSSComment):
            if with_comments:
                out.append(('comment', comment_text(child)))
        else:
            out.append(('other', type(child).__name__, getattr(child, 'cssText', '')))
    # the list interface must agree with the children view
    props = [('decl', p.name, vtoks(p.value), p.priority) for p in style.getProperties(all=True)]
    if props != [x for x in out if x[0] == 'decl']:
        out.append(('getProperties-disagrees', tuple(props)))
    return tuple(out)


def p_media(ml):
    return tuple(vtoks(ml[i].mediaText.lower()) for i in range(len(ml)))


def p_rule(r, with_comments=True, specificity=True, resolved=False):
    t = r.type
    if t == r.COMMENT:
        return ('comment', comment_text(r)) if with_comments else None
    if t == r.CHARSET_RULE:
        return ('charset', r.encoding.lower())
    if t == r.IMPORT_RULE:
        return ('import', r.href, p_media(r.media) or (vtoks('all'),), r.name)
    if t == r.NAMESPACE_RULE:
        return ('namespace', r.prefix, r.namespaceURI)
    if t == r.STYLE_RULE:
        sels = tuple(tuple(S.struct_of_text(s.selectorText)) for s in r.selectorList)
        spec = tuple(tuple(s.specificity) for s in r.selectorList)
        if resolved:
            # namespace resolution: subject element and the namespace URIs the selectors refer to
            spec = (spec if specificity else (), tuple(s.element for s in r.selectorList),
                    tuple(sorted(str(u) for u in r.selectorList._getUsedUris())))
            return ('style', sels, spec, p_block(r.style, with_comments))
        return ('style', sels, spec if specificity else (), p_block(r.style, with_comments))
    if t == r.MEDIA_RULE:
        rules = tuple(x for x in (p_rule(c, with_comments, specificity, resolved) for c in r.cssRules) if x is not None)
        return ('media', p_media(r.media), rules)
    if t == r.PAGE_RULE:
        margins = []
        for c in r.cssRules:
            if c.type == c.MARGIN_RULE:
                margins.append(('margin', c.margin, p_block(c.style, with_comments)))
            else:
                margins.append(('other', c.type, c.cssText))
        # page pseudo-classes are case-insensitive; comments in the selector are layout
        sel = ''.join(v for t, v in vtoks(r.selectorText) if t != 'S')
        name, _, pseudo = sel.partition(':')
        sel = name + (':' + pseudo.lower() if pseudo else '')
        return ('page', sel, tuple(r.specificity), p_block(r.style, with_comments), tuple(margins))
    if t == r.FONT_FACE_RULE:
        return ('fontface', p_block(r.style, with_comments))
    if t == r.UNKNOWN_RULE:
        return ('unknown', tuple(t for t in vtoks(r.cssText) if t[0] != 'S'))
    if t == r.VARIABLES_RULE:
        return ('variables', tuple((k, vtoks(r.variables[k])) for k in r.variables.keys()))
    return ('other', t, r.cssText)


def p_sheet(sheet, with_comments=True, specificity=True, resolved=False):
    return tuple(x for x in (p_rule(r, with_comments, specificity, resolved) for r in sheet.cssRules) if x is not None)


def first_diff(a, b, path=''):
    """human readable first difference of two projections"""
    if type(a) is not type(b) or not isinstance(a, tuple):
        return f'{path}: {a!r} != {b!r}' if a != b else None
    for i, (x, y) in enumerate(zip(a, b)):
        d = first_diff(x, y, f'{path}/{i}')
        if d:
            return d
    if len(a) != len(b):
        return f'{path}: length {len(a)} != {len(b)}; extra {a[len(b):]!r} {b[len(a):]!r}'[:600]
    return None
