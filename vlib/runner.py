"""Runner: tiers, seeds, sharding over processes, exit codes, evidence, replays.

A *check* (one per property) is a Python module under /verif/checks that
defines ``PROPERTY`` (id), ``RULE`` (text: generation + non-triviality rule),
``ASSUMPTIONS`` (list of str) and ``SUBS`` (list of ``Sub``).  A ``Sub`` is one
generated-input search: a Hypothesis strategy (or a finite enumeration) that
produces *plain JSON-able cases* plus ``check(case, ctx)`` — the executable
oracle.  ``check`` raises ``Violation(signature, message)`` when the property
is broken for that case.  Every other exception escaping ``check`` is a
harness error (exit 2), never a violation; library calls whose exceptions the
oracle does not expect are wrapped with ``lib()`` which converts them.

Exit protocol: 0 held (possibly KNOWN-FINDING lines), 1 + VIOLATION line(s),
2 harness error / inconclusive.
"""

import contextlib
import hashlib
import json
import multiprocessing
import os
import sys
import time
import traceback
from collections import Counter

VERIF = os.path.dirname(os.path.dirname(os.path.abspath(__file__)))
REPO = os.environ.get('VERIF_REPO', '/repo')


class Violation(Exception):
    def __init__(self, sig, msg=''):
        super().__init__(f'{sig}: {msg}')
        self.sig = sig
        self.msg = msg


class HarnessAbort(BaseException):
    """Exception in harness code; passes through Hypothesis unshrunk."""


REPORTED_RULE = (' reported: the deterministic programs under reported/<ID>/ (one per defect report of the second hunt that was kept: the exact input of a listed finding) are run against the tree; exit 0 = the promised behaviour holds for that input.')


def frame_sig(exc):
    """(type, innermost frame inside the repository) of a library exception."""
    tb = exc.__traceback__
    inner = None
    while tb is not None:
        fn = tb.tb_frame.f_code.co_filename
        if fn.startswith(REPO + os.sep):
            inner = (os.path.relpath(fn, REPO), tb.tb_frame.f_code.co_name)
        tb = tb.tb_next
    if inner is None:
        return f'{type(exc).__name__}@?'
    return f'{type(exc).__name__}@{inner[0]}:{inner[1]}'


@contextlib.contextmanager
def lib(what='call', expect=()):
    """Run library code; any exception not in ``expect`` becomes a Violation."""
    try:
        yield
    except expect:
        raise
    except (Violation, HarnessAbort):
        raise
    except RecursionError as e:
        raise Violation(f'crash:{what}:RecursionError', repr(e)[:200])
    except Exception as e:  # noqa: BLE001
        raise Violation(f'crash:{what}:{frame_sig(e)}', repr(e)[:300])


def h64(obj):
    if not isinstance(obj, (bytes, str)):
        obj = json.dumps(obj, sort_keys=True, default=repr)
    if isinstance(obj, str):
        obj = obj.encode('utf-8', 'surrogatepass')
    return int.from_bytes(hashlib.blake2b(obj, digest_size=8).digest(), 'big')


class Ctx:
    """Per-shard collector of coverage facts."""

    MAX_SAMPLES = 6

    def __init__(self, pid, tier, seed, shard=0, nshards=1):
        self.pid, self.tier, self.seed = pid, tier, seed
        self.shard, self.nshards = shard, nshards
        self.stats = Counter()
        self.nontrivial = set()
        self.samples = []
        self.evals = 0
        self.known_hits = Counter()
        self.sub = None

    def event(self, name, n=1):
        self.stats[f'{self.sub}:{name}'] += n

    def case(self, key, nontrivial, sample=None):
        """Count one evaluated case. ``key`` identifies it for distinctness."""
        self.evals += 1
        if nontrivial:
            k = h64([self.sub, key])
            if k not in self.nontrivial:
                self.nontrivial.add(k)
                if sample is not None and (
                    sum(1 for s in self.samples if s['sub'] == self.sub)
                    < self.MAX_SAMPLES
                ):
                    self.samples.append({'sub': self.sub, 'case': sample})


class Sub:
    def __init__(
        self,
        name,
        check,
        strategy=None,
        enumerate=None,
        quick=200,
        thorough=5000,
        shards_quick=4,
        shards_thorough=16,
        budget_quick=60.0,
        budget_thorough=1500.0,
        fork_each=False,
    ):
        self.name = name
        self.check = check
        self.strategy = strategy
        self.enumerate = enumerate
        self.n = {'quick': quick, 'thorough': thorough}
        self.shards = {'quick': shards_quick, 'thorough': shards_thorough}
        self.budget = {'quick': budget_quick, 'thorough': budget_thorough}
        self.fork_each = fork_each


# --------------------------------------------------------------------------


def _load_findings():
    p = os.path.join(VERIF, 'known_findings.json')
    if not os.path.exists(p):
        return []
    with open(p) as f:
        return json.load(f)['findings']


def _known_sigs(pid):
    return {
        f['signature']: f
        for f in _load_findings()
        if f['property'] == pid and f['status'] == 'open'
    }


_PROGRESS = {'fd': None}


def _progress_path(pid, subname, shard):
    d = os.path.join(VERIF, '.work', 'progress')
    os.makedirs(d, exist_ok=True)
    return os.path.join(d, f'{pid}-{subname}-{shard}.json')


def _cpu_ticks(procid):
    try:
        with open(f'/proc/{procid}/stat') as f:
            parts = f.read().rsplit(')', 1)[1].split()
        return (int(parts[11]) + int(parts[12])) / os.sysconf('SC_CLK_TCK')
    except (OSError, ValueError, IndexError):
        return None


def _note_progress(case):
    fd = _PROGRESS['fd']
    if fd is None:
        return
    data = json.dumps({'t': time.time(), 'cpu': _cpu_ticks(os.getpid()), 'pid': os.getpid(), 'case': case}, default=repr).encode()
    os.lseek(fd, 0, os.SEEK_SET)
    os.ftruncate(fd, 0)
    os.write(fd, data)


def _run_case(sub, case, ctx, known):
    """Returns None, or ('known', sig) / raises Violation for unknown ones."""
    _note_progress(case)
    try:
        sub.check(case, ctx)
    except Violation as v:
        if v.sig.endswith('@?') and any(t in v.sig for t in ('NameError', 'UnboundLocalError', 'ImportError', 'ModuleNotFoundError')):
            # no frame of the library in the traceback and an error only harness code can make: not a finding
            raise HarnessAbort(f'harness bug reported as crash: {v.sig}: {v.msg}'[:500])
        if v.sig in known:
            ctx.known_hits[v.sig] += 1
            return ('known', v.sig)
        raise
    except (HarnessAbort, KeyboardInterrupt, SystemExit, MemoryError):
        raise
    except Exception as e:  # noqa: BLE001
        # an exception no check expected: if its innermost frame lies inside the repository it was raised by the library through a
        # call the check left unwrapped - a crash of the library, reported as such (signature as lib() builds it); anything else
        # is a bug of the harness and stays a harness error
        sig = frame_sig(e)
        if sig.endswith('@?') or isinstance(e, (NameError, ImportError)):
            raise
        v = Violation('crash:unwrapped:' + sig, repr(e)[:300])
        if v.sig in known:
            ctx.known_hits[v.sig] += 1
            return ('known', v.sig)
        raise v
    return None


def _shard_worker(args):
    modname, subname, tier, seed, shard, nshards = args
    import importlib

    mod = importlib.import_module(modname)
    sub = next(s for s in mod.SUBS if s.name == subname)
    pid = mod.PROPERTY
    ctx = Ctx(pid, tier, seed, shard, nshards)
    ctx.sub = sub.name
    known = _known_sigs(pid)
    failures = []
    harness = None
    skipped = 0
    t0 = time.time()
    budget = sub.budget[tier] * float(os.environ.get('VERIF_BUDGET_SCALE', '1'))
    ppath = None
    if os.environ.get('VERIF_NO_WATCHDOG') != '1':
        ppath = _progress_path(pid, sub.name, shard)
        _PROGRESS['fd'] = os.open(ppath, os.O_CREAT | os.O_RDWR | os.O_TRUNC, 0o644)
    try:
        if sub.enumerate is not None:
            for i, case in enumerate(sub.enumerate(tier)):
                if i % nshards != shard:
                    continue
                if time.time() - t0 > budget:
                    skipped += 1
                    continue
                try:
                    _run_case(sub, case, ctx, known)
                except Violation as v:
                    failures.append((case, v.sig, v.msg))
                    if len(failures) >= 3:
                        break
        else:
            import hypothesis
            from hypothesis import HealthCheck, Phase, given, settings

            n = max(1, sub.n[tier] // nshards)
            phases = [Phase.generate]
            if not os.environ.get('VERIF_NOSHRINK'):
                phases.append(Phase.shrink)
            state = {'last': None, 'skipped': 0}

            def body(case):
                if time.time() - t0 > budget and state['last'] is None:
                    state['skipped'] += 1
                    return
                try:
                    _run_case(sub, case, ctx, known)
                except Violation as v:
                    state['last'] = (case, v.sig, v.msg)
                    raise
                except HarnessAbort:
                    raise
                except Exception:  # noqa: BLE001
                    raise HarnessAbort(
                        f'harness error in {pid}/{sub.name} on case '
                        f'{json.dumps(case, default=repr)[:2000]}\n'
                        + traceback.format_exc()
                    )

            dseed = h64([seed, pid, sub.name, shard]) % (2**63)
            test = hypothesis.seed(dseed)(
                settings(
                    max_examples=n,
                    database=None,
                    deadline=None,
                    derandomize=False,
                    report_multiple_bugs=False,
                    suppress_health_check=list(HealthCheck),
                    phases=phases,
                    print_blob=False,
                )(given(sub.strategy)(body))
            )
            try:
                # hypothesis prints "You can reproduce..." on stdout; silence
                with contextlib.redirect_stdout(sys.stderr):
                    test()
            except Violation:
                failures.append(state['last'])
            except hypothesis.errors.Flaky as e:
                if state['last'] is not None:
                    c, s, m = state['last']
                    failures.append((c, s, m + ' [flaky: ' + repr(e)[:200] + ']'))
                else:
                    harness = 'Flaky without recorded failure: ' + repr(e)
            skipped = state['skipped']
    except HarnessAbort as e:
        harness = str(e)
    except Exception:  # noqa: BLE001
        harness = traceback.format_exc()
    if ppath is not None:
        os.close(_PROGRESS['fd'])
        _PROGRESS['fd'] = None
        try:
            os.unlink(ppath)
        except OSError:
            pass
    return {
        'sub': sub.name,
        'shard': shard,
        'evals': ctx.evals,
        'nontrivial': ctx.nontrivial,
        'samples': ctx.samples,
        'stats': ctx.stats,
        'known_hits': ctx.known_hits,
        'failures': failures,
        'harness': harness,
        'skipped': skipped,
        'wall': time.time() - t0,
    }


def _write_replay(pid, subname, case, sig, msg, where='found'):
    d = os.path.join(VERIF, 'replays', where)
    os.makedirs(d, exist_ok=True)
    body = {'property': pid, 'sub': subname, 'case': case, 'signature': sig, 'message': msg}
    name = f'{pid}-{subname}-{h64(body) & 0xFFFFFFFF:08x}.json'
    path = os.path.join(d, name)
    with open(path, 'w') as f:
        json.dump(body, f, indent=1, default=repr)
    return path


def run_single(mod, sub, case, ctx):
    """One case outside the sharded search.  Modules that set HANG_WATCH (seconds) get it run in a forked child that is
    killed when it is still busy after that time: the case is then reported as Violation('hang:cpu-bound')."""
    limit = getattr(mod, 'HANG_WATCH', None)
    if not limit:
        sub.check(case, ctx)
        return
    r, w = os.pipe()
    child = os.fork()
    if child == 0:
        os.close(r)
        try:
            try:
                sub.check(case, ctx)
                out = None
            except Violation as v:
                out = ('violation', v.sig, v.msg)
            except BaseException:  # noqa: BLE001
                out = ('harness', traceback.format_exc(), '')
            os.write(w, json.dumps(out).encode())
        finally:
            os._exit(0)
    os.close(w)
    t0 = time.time()
    data = b''
    import select

    while True:
        left = limit * 3 - (time.time() - t0)
        if left <= 0:
            break
        if select.select([r], [], [], min(left, 0.5))[0]:
            chunk = os.read(r, 1 << 16)
            if not chunk:
                break
            data += chunk
        elif time.time() - t0 > limit and (_cpu_ticks(child) or 0) > limit:
            break
    os.close(r)
    done = os.waitpid(child, os.WNOHANG)[0] != 0
    if not done:
        busy = _cpu_ticks(child) or 0
        os.kill(child, 9)
        os.waitpid(child, 0)
        if not data:
            raise Violation('hang:cpu-bound', f'still busy after {time.time() - t0:.0f}s ({busy:.0f}s CPU)')
    out = json.loads(data.decode()) if data else None
    if out is None:
        return
    if out[0] == 'violation':
        raise Violation(out[1], out[2])
    raise RuntimeError(out[1])


def replay_file(mod, path, quiet=False):
    with open(path) as f:
        body = json.load(f)
    sub = next(s for s in mod.SUBS if s.name == body['sub'])
    ctx = Ctx(mod.PROPERTY, 'quick', 0)
    ctx.sub = sub.name
    try:
        run_single(mod, sub, body['case'], ctx)
    except Violation as v:
        return v
    return None


def run_check(modname, tier, seed, only_sub=None):
    import importlib

    t0 = time.time()
    mod = importlib.import_module(modname)
    pid = mod.PROPERTY
    known = _known_sigs(pid)
    out_lines = []
    violations = []  # (subname, case, sig, msg)
    harness_errors = []
    known_reported = {}

    # 1. witnesses of listed findings + committed regression replays
    for f in _load_findings():
        if f['property'] != pid:
            continue
        w = f.get('witness')
        if not w:
            continue
        sub = next((s for s in mod.SUBS if s.name == w['sub']), None)
        if sub is None:
            harness_errors.append(f"finding {f['id']}: unknown sub {w['sub']}")
            continue
        ctx = Ctx(pid, tier, seed)
        ctx.sub = sub.name
        try:
            run_single(mod, sub, w['case'], ctx)
            res = None
        except Violation as v:
            res = v
        except Exception:  # noqa: BLE001
            harness_errors.append(f"finding {f['id']} witness: " + traceback.format_exc())
            continue
        if f['status'] == 'open':
            if res is not None and res.sig == f['signature']:
                known_reported[f['id']] = f
            elif res is not None:
                violations.append((sub.name, w['case'], res.sig, res.msg))
            # witness passes now: silent (finding no longer reproduces)
        else:  # fixed: must stay fixed (a listed open finding met on the way is not a regression of this one)
            if res is not None and not (res.sig in known and res.sig != f['signature']):
                violations.append((sub.name, w['case'], res.sig, 'regression of fixed finding ' + f['id'] + ': ' + res.msg))
    rdir = os.path.join(VERIF, 'replays', pid)
    nreplays = 0
    if os.path.isdir(rdir):
        for fn in sorted(os.listdir(rdir)):
            if not fn.endswith('.json'):
                continue
            nreplays += 1
            try:
                v = replay_file(mod, os.path.join(rdir, fn))
            except Exception:  # noqa: BLE001
                harness_errors.append(f'replay {fn}: ' + traceback.format_exc())
                continue
            if v is not None and v.sig not in known:
                with open(os.path.join(rdir, fn)) as fh:
                    body = json.load(fh)
                violations.append((body['sub'], body['case'], v.sig, 'regression replay ' + fn + ': ' + v.msg))

    # 2. generated search, sharded
    jobs = []
    for sub in mod.SUBS:
        if only_sub and sub.name != only_sub:
            continue
        ns = sub.shards[tier]
        if sub.enumerate is None:
            ns = max(1, min(ns, sub.n[tier]))
        for sh in range(ns):
            jobs.append((modname, sub.name, tier, seed, sh, ns))
    nproc = int(os.environ.get('VERIF_PROCS', '16' if tier == 'thorough' else '8'))
    results = []
    if jobs:
        mpctx = multiprocessing.get_context('fork')
        # every check is watched from outside; only for modules that declare HANG_WATCH is a CPU-bound hang a violation of
        # their property, for the others it makes the result inconclusive instead of blocking for ever
        declared = getattr(mod, 'HANG_WATCH', None)
        watch = declared or 300
        hung = {}
        with mpctx.Pool(min(nproc, len(jobs))) as pool:
            pending = {j: pool.apply_async(_shard_worker, (j,)) for j in jobs}
            deadline = {j: None for j in jobs}
            while pending:
                for j, ar in list(pending.items()):
                    if ar.ready():
                        results.append(ar.get())
                        del pending[j]
                if not pending:
                    break
                time.sleep(0.2)
                for j in list(pending):
                    pp = _progress_path(pid, j[1], j[4])
                    try:
                        with open(pp) as fh:
                            prog = json.loads(fh.read() or 'null')
                    except (OSError, ValueError):
                        continue
                    if not prog or time.time() - prog['t'] < watch:
                        continue
                    busy = (_cpu_ticks(prog['pid']) or 0) - (prog.get('cpu') or 0)
                    elapsed = time.time() - prog['t']
                    if busy >= watch:
                        # the worker has been computing on this one case all the time: a hang by the standard of this check
                        hung[j] = (prog['case'], f'still busy after {elapsed:.0f}s wall / {busy:.0f}s CPU on one case')
                        try:
                            os.kill(prog['pid'], 9)
                        except OSError:
                            pass
                        del pending[j]
                        try:
                            os.unlink(pp)
                        except OSError:
                            pass
                    elif elapsed > 20 * watch:
                        harness_errors.append(f'{j[1]} shard {j[4]}: no progress for {elapsed:.0f}s without using the CPU (starved?)')
                        del pending[j]
            pool.terminate()
        for j, (case, msg) in hung.items():
            if declared:
                violations.append((j[1], case, 'hang:cpu-bound', msg))
            else:
                harness_errors.append(f'{j[1]} shard {j[4]}: {msg}; case {json.dumps(case, default=repr)[:600]}')
    results.sort(key=lambda r: (r['sub'], r['shard']))

    evals = 0
    nontrivial = set()
    samples = []
    stats = Counter()
    known_hits = Counter()
    skipped = 0
    per_sub = {}
    for r in results:
        evals += r['evals']
        nontrivial |= r['nontrivial']
        stats.update(r['stats'])
        known_hits.update(r['known_hits'])
        skipped += r['skipped']
        ps = per_sub.setdefault(r['sub'], {'evaluations': 0, 'shards': 0, 'wall_s': 0.0, 'skipped_over_budget': 0})
        ps['evaluations'] += r['evals']
        ps['shards'] += 1
        ps['wall_s'] = round(max(ps['wall_s'], r['wall']), 2)
        ps['skipped_over_budget'] += r['skipped']
        if sum(1 for s in samples if s['sub'] == r['sub']) < 4:
            samples.extend(r['samples'][:2])
        for fl in r['failures']:
            violations.append((r['sub'], fl[0], fl[1], fl[2]))
        if r['harness']:
            harness_errors.append(r['harness'])

    # a known signature hit by the search is reported through its finding
    for sig, n in known_hits.items():
        f = known.get(sig)
        if f is not None:
            known_reported.setdefault(f['id'], f)

    for fid, f in sorted(known_reported.items()):
        out_lines.append(f"KNOWN-FINDING: property={pid} {fid} {f['what']}")

    # de-duplicate violations by signature, keep smallest case
    bysig = {}
    for subname, case, sig, msg in violations:
        size = len(json.dumps(case, default=repr))
        if sig not in bysig or size < bysig[sig][0]:
            bysig[sig] = (size, subname, case, msg)
    for sig, (_, subname, case, msg) in sorted(bysig.items()):
        path = _write_replay(pid, subname, case, sig, msg)
        out_lines.append(f'VIOLATION property={pid} replay={path}')
        out_lines.append(f'  signature={sig} sub={subname} :: {msg[:400]}')

    wall = time.time() - t0
    evidence = {
        'property_id': pid,
        'tier': tier,
        'seed': seed,
        'level': 'exploration',
        'coverage': {
            'evaluations': evals + nreplays + len([f for f in _load_findings() if f['property'] == pid]),
            'distinct_nontrivial': len(nontrivial),
            'rule': mod.RULE + (REPORTED_RULE if any(x.name == 'reported' for x in mod.SUBS) else ''),
            'samples': samples[:24],
            'exhaustive': bool(getattr(mod, 'EXHAUSTIVE', False)),
            'per_sub': per_sub,
            'classes': {k: v for k, v in sorted(stats.items())},
            'known_findings_reported': sorted(known_reported),
            'known_signature_hits_during_search': dict(known_hits),
            'cases_skipped_over_time_budget': skipped,
            'regression_replays': nreplays,
            'repo': REPO,
        },
        'assumptions': list(mod.ASSUMPTIONS),
        'wall_s': round(wall, 2),
        'violations': len(bysig),
    }
    if not os.environ.get('VERIF_NO_EVIDENCE'):
        os.makedirs(os.path.join(VERIF, 'evidence'), exist_ok=True)
        with open(os.path.join(VERIF, 'evidence', f'{pid}.json'), 'w') as f:
            json.dump(evidence, f, indent=1, default=repr, sort_keys=True)
            f.write('\n')

    for ln in out_lines:
        print(ln)
    print(
        f'{pid} tier={tier} seed={seed} evaluations={evidence["coverage"]["evaluations"]} '
        f'distinct_nontrivial={len(nontrivial)} violations={len(bysig)} '
        f'known={len(known_reported)} skipped={skipped} wall={wall:.1f}s'
    )
    if harness_errors:
        for h in harness_errors[:5]:
            print('HARNESS-ERROR:', h, file=sys.stderr)
        print(f'{pid}: harness error(s) — result inconclusive', file=sys.stderr)
        return 2 if not bysig else 1
    if bysig:
        return 1
    if evals == 0 and jobs:
        print(f'{pid}: nothing evaluated — inconclusive', file=sys.stderr)
        return 2
    return 0
