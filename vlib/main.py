import argparse
import glob
import os
import sys

VERIF = os.path.dirname(os.path.dirname(os.path.abspath(__file__)))
REPO = os.environ.get('VERIF_REPO', '/repo')
# the working tree under test comes first; /verif second; offline deps last
sys.path[:0] = [REPO, VERIF]
deps = os.path.join(VERIF, '.deps')
if os.path.isdir(deps):
    sys.path.append(deps)


def ensure_deps():
    try:
        import hypothesis  # noqa: F401
    except ImportError:
        import subprocess

        subprocess.check_call(
            [sys.executable, '-m', 'pip', 'install', '-q', '--no-index', '--find-links',
             '/opt/veriftools/wheels', '--target', deps, 'hypothesis'],
            stdout=sys.stderr,
        )
        sys.path.append(deps)


def main():
    ap = argparse.ArgumentParser()
    ap.add_argument('prop')
    ap.add_argument('--tier', default=os.environ.get('VERIF_TIER', 'quick'), choices=['quick', 'thorough'])
    ap.add_argument('--seed', type=int, default=int(os.environ.get('VERIF_SEED', '1') or 1))
    ap.add_argument('--replay')
    ap.add_argument('--sub')
    a = ap.parse_args()
    ensure_deps()
    import logging

    import cssutils
    import encutils

    for m in (cssutils, encutils):
        if not os.path.abspath(m.__file__).startswith(os.path.abspath(REPO) + os.sep):
            print(f'HARNESS-ERROR: {m.__name__} imported from {m.__file__}, not {REPO}', file=sys.stderr)
            return 2
    cssutils.log.setLevel(logging.FATAL)
    pid = a.prop.upper()
    mods = glob.glob(os.path.join(VERIF, 'checks', pid.lower() + '_*.py'))
    if len(mods) != 1:
        print(f'HARNESS-ERROR: no unique check module for {pid}', file=sys.stderr)
        return 2
    modname = 'checks.' + os.path.basename(mods[0])[:-3]
    from vlib import runner

    if a.replay:
        import importlib

        mod = importlib.import_module(modname)
        v = runner.replay_file(mod, a.replay)
        if v is None:
            print(f'{pid}: replay {a.replay} passes')
            return 0
        known = runner._known_sigs(pid)
        if v.sig in known:
            print(f"KNOWN-FINDING: property={pid} {known[v.sig]['id']} {known[v.sig]['what']}")
            return 0
        print(f'VIOLATION property={pid} replay={a.replay}')
        print(f'  signature={v.sig} :: {v.msg[:600]}')
        return 1
    return runner.run_check(modname, a.tier, a.seed, a.sub)


if __name__ == '__main__':
    try:
        rc = main()
    except SystemExit:
        raise
    except BaseException:  # noqa: BLE001
        import traceback

        traceback.print_exc()
        rc = 2
    sys.stdout.flush()
    sys.exit(rc)
