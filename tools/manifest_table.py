NOT_YET = {}
CHECKS['C05'] = dict(
    technique='property-based testing (Hypothesis) + enumeration: span-tiling/position oracle with an independent escape decoder, generated grammar-token sequences round trip, planted-error position check',
    text='Generated-input search: ~80k texts/token sequences per quick run (millions thorough) against a tiling + independent-decoder oracle, exact recovery of generated token sequences, and error-position agreement; finds counterexamples, does not prove absence.',
    note='Trusted: CPython re/str, Hypothesis, my 30-line escape decoder. Simple (non-hex) escapes and COMMENT/at-keyword value decoding are not asserted; EOF position unchecked after a completion.',
)
CHECKS['C10'] = dict(
    technique='model-based property testing (Hypothesis operation sequences vs. a reference ordered-multimap model, compared after every step) + exhaustive DOM-name table',
    text='Generated operation histories (~9k per quick run, 300k thorough) over all set/remove/item/attribute/cssText operations executed in lock-step on the library and on a 40-line reference model; all known property names enumerated for the DOM-name mapping. Exploration, not proof.',
    note='Trusted: reference model written from the property statement; value canonical forms from a fixed hand-checked table; API names vary by case and simple escapes only; normalize=False variants not exercised.',
)
CHECKS['C17'] = dict(
    technique='model-based property testing (Hypothesis operation sequences vs. a reference ordered-set model) + grammar-level mutation of media queries with a must-reject oracle',
    text='Generated histories of appendMedium/deleteMedium/item assignment/mediaText on stand-alone, @media- and @import-owned lists compared after every step with a reference model and with the reparse of the serialisation; 18 classes of malformed queries must be rejected as a whole. Exploration, not proof.',
    note='Trusted: reference model from the statement; cssutils tokenizer used only to normalise texts; wellformed/len() not asserted; item assignment restricted to cases needing no canonicalisation (finding F17-1).',
)
CHECKS['C14'] = dict(
    technique='model-based property testing (Hypothesis operation sequences on a fresh Profiles() vs. a reference registry model with its own macro expansion), verdict battery compared after every step',
    text='Generated add/addProfiles/remove/remove-all/defaultProfiles histories (6k quick, 120k thorough) with profiles that shadow token, general, foreign and private macros; verdicts, known names, profile list compared with a contents-only model after every step. Exploration, not proof.',
    note='Trusted: the reference model (40 lines) incl. its re-implementation of macro expansion; sound domain: no double registration, profiles only use macros they define or built-in ones.',
)
CHECKS['C07'] = dict(
    technique='exhaustive enumeration of the detector table against a CSS 2.1 section 4.4 reference + property-based round trip and chunk-schedule differential testing (Hypothesis) with Python codecs as oracle',
    text='Detector: all 16105 prefixes of length 0-4 over the 11 byte classes x tails x final, exhaustive, plus never-wrong under extension. Round trip over 15 encodings and generated chunk schedules for incremental/stream encoders and decoders against the one-shot result. Exploration beyond the finite table.',
    note='Trusted: Python standard codecs, my 25-line reference detector; charset names in texts are known codecs; end-of-stream losses of the stream API and CJK cuts are listed findings F07-2/3/8.',
)
CHECKS['C20'] = dict(
    technique='exhaustive enumeration of the finite decision table against a reference decision procedure + property-based testing (Hypothesis) of the sniffers',
    text='All 9.2k rows of media type x transport charset x XML part x meta x str/bytes x case are enumerated and compared field by field with a 25-line decision procedure written from the getEncodingInfo docstring; generated documents for detectXMLEncoding (incl. stream position), getMetaInfo and encodingByMediaType. The table part is exhaustive; the sniffer part is exploration.',
    note='Trusted: the reference procedure, email.message for the stub response, codecs.lookup for name comparison; documents >= 4 characters; BOM in str documents = byte-valued characters.',
)
CHECKS['C18'] = dict(
    technique='property-based testing (Hypothesis) with exact arithmetic oracles (fractions.Fraction, own HSL formulas, own decimal reader) + exhaustive enumeration of short/long hash colours and colour keywords',
    text='Generated decimal literals x units x omitLeadingZero compared exactly as rationals; all 4096 short hashes, a stratified sample (thorough: all 16.7M) of long hashes, colour functions and keywords re-computed independently; strings/URLs round-tripped character for character; component lists keep separators. Exploration (hash table exhaustive in thorough).',
    note='Trusted: Fraction arithmetic, my HSL formulas (CSS3 algorithm), a hand-written table of the 17 CSS 2.1 colours; tolerance 1 per channel for percentages/HSL; content with backslash, edge-escaped bare URLs and |x|>=2^33 fractions are listed findings probed by witnesses.',
)
CHECKS['C16'] = dict(
    technique='property-based testing (Hypothesis): grammar-based selector generator with specificity and structure known by construction, metamorphic spellings, round trip; model-based operation sequences for selector lists',
    text='Generated CSS3 selectors (5k quick, 400k thorough) x 4 spellings, stand-alone and attached to a sheet with namespaces: specificity and the comment-free structure of selectorText must equal values computed from the model; serialisation must be a fixpoint; list histories against a list model with invalid members. Exploration.',
    note='Trusted: the generator-side specificity/structure computation, cssutils tokenizer as normaliser; functional pseudo-classes inside :not() excluded (finding F16-1); names without characters needing escapes.',
)
CHECKS['C02'] = dict(
    technique='property-based testing (Hypothesis): grammar-based abstract stylesheet generator, absolute oracle (projection computed from the model) + metamorphic oracle (every spelling of one meaning gives the same DOM projection) + option differentials',
    text='Generated abstract stylesheets (4k quick, 200k thorough) rendered canonically and in 3 random spellings; the DOM projection through public accessors must equal the projection computed from the model, be identical across spellings, lose exactly the comments with parseComments=False and nothing with validate=False. Exploration.',
    note='Trusted: my renderer and expected-projection code (the absolute oracle compares two independent paths from the model), cssutils tokenizer/helper functions as text normalisers; numbers and media lists are generated canonical (C18/C17 own their normalisation); comments in calc() and in margin boxes are listed findings.',
)
CHECKS['C03'] = dict(
    technique='property-based round-trip testing (Hypothesis): serialise -> parse -> project/serialise on generated DOMs, DOMs after generated edit histories, all repository sheets, and node-level set-back of every serialisable node; content alphabet over the character range',
    text='Round trip (projection equality under lossless preferences + byte fixpoint, default-preference fixpoint) on 1.5k generated+edited sheets, all 50 repository sheets and 3k content cases per quick run (hundreds of thousands thorough), plus node-level set-back for rules, blocks, selectors, media lists and values. Exploration.',
    note='Trusted: the DOM projection (public accessors), cssutils tokenizer as normaliser; identifiers needing escapes, backslash content and multi-line comments inside blocks are listed findings excluded from the generators and probed by witnesses; empty @font-face/@page compare as absent.',
)
CHECKS['C04'] = dict(
    technique='property-based testing (Hypothesis): grammar-based garbage injection into generated well-formed sheets with a containment predicate over DOM projections (differential against the undamaged sheet) + exhaustive prefix truncation of generated sheets against the model',
    text='8k (sheet, injection point, balanced garbage) triples per quick run at declaration and statement level with the oracle "projections differ at most by a contiguous run at the injection index", and every prefix of 400 generated sheets/blocks (~80k parses) with the oracle "every construct complete before the cut is present unchanged". Exploration.',
    note='Trusted: DOM projection, generator-side end offsets; garbage alphabets are hand-written (40 declaration-level, 30 statement-level fragments), balanced by construction; a stray top-level ";" is not a self-contained construct and not used.',
)
CHECKS['C01'] = dict(
    technique='fuzzing / property-based testing (Hypothesis): token soups, mutated well-formed and real-world sheets, nesting sweeps, encoded byte inputs x parser configurations and fetchers, with a no-exception + re-serialisable oracle and a deterministic cost meter (sys.setprofile call counting) against a polynomial bound',
    text='8k generated inputs per quick run (500k thorough) over all parser options, entry points and fetcher kinds; oracle: DOM type returned, no exception of any type, cssText works, serialisation reparses and reserialises, call count <= A+B*n+C*n^2, growth ratio cost(2d)/cost(d) <= 12 in nesting sweeps to depth 100. Exploration; complexity is checked on generated families, not proved.',
    note='Trusted: the cost meter (counts Python calls inside cssutils; C-level regex time only guarded by a 60 s alarm = inconclusive); constants calibrated at >=10x the worst ratio on repository sheets; function / unknown-rule nesting deeper than 6 and cyclic imports are listed findings F01-1/2/3 probed by witnesses.',
)
CHECKS['C12'] = dict(
    technique='property-based testing over call histories with injected faults (Hypothesis), differential oracle "full history + probe battery" vs "configuration steps only + probe battery" in forked child processes, plus before/after invariants on the global modes around every parse call',
    text='500 histories per quick run (60k thorough) of up to 8 calls incl. faults (UnicodeDecodeError, LookupError, raising/garbage/cyclic fetchers, missing file, raising parser, rejected edits, csscombine, profile add/remove, parser reuse); each compared in two forked children; global error mode, serializer object/preferences and profiles checked around every parse call. Exploration over histories, fault kinds enumerated.',
    note='Trusted: os.fork isolation, pickle; explicit assignments to preferences/profiles/error mode are configuration and replayed in the baseline; log output is not compared.',
)
CHECKS['C09'] = dict(
    technique='stateful property-based testing (Hypothesis operation sequences) with a structural invariant checked after every step, plus exhaustive enumeration of all histories of length <= 2 over a reduced alphabet',
    text='8k generated edit histories per quick run (200k thorough) over insertRule/add/deleteRule/cssText/encoding/namespace operations on sheets and nested @media/@page lists in both error modes, and all ~2k one- and two-step histories; the invariant (charset first, import < namespace < rules, allowed kinds in nested lists, parent links, removed objects detached, reparse keeps all rules) is evaluated after every step. Exploration (short histories exhaustive).',
    note='Trusted: the invariant code; only DOMException counts as rejection; text assignment to an attached @namespace rule is left to C15; @variables order relative to @namespace not asserted.',
)
CHECKS['C15'] = dict(
    technique='stateful property-based testing (Hypothesis operation sequences on two sheets) with namespace invariants after every step: mapping == rules, used URIs declared, (URI, local name) pairs of all selectors invariant, serialisation re-resolves identically',
    text='8k histories per quick run (200k thorough) of mapping set/delete, @namespace insert/delete, prefix change, namespaced rule add (text/object), selector edits, moves between sheets and detach/edit/re-attach in both error modes; five literal scenarios for repaired and listed defects. Exploration.',
    note='Trusted: invariant code; selector meaning read from Selector.seq tuples; default-namespace URI changes and moves needing an undeclared namespace are excluded (findings F15-1/2).',
)
CHECKS['C11'] = dict(
    technique='exhaustive enumeration of a (mutator x rejected argument x prior state) table plus property-based variation of the prior state by accepted edits (Hypothesis), with a before/after snapshot oracle and a differential follow-up operation against an untouched copy',
    text='45 public mutators x up to 8 arguments rejected immediately / late / in a nested object x 3 prior states (all enumerated) and 1.5k cases after random accepted edits per quick run; 41 read-only (class, mutator) pairs enumerated. Snapshot of sheet, rules, properties, selectors, media, namespace mapping and its object identity must be equal after a DOMException; a valid follow-up must behave as on a fresh copy. Finite table exhaustive, state variation exploration.',
    note='Trusted: snapshot code; only calls that raise DOMException are in scope (accepted arguments are tallied); table of arguments is hand-written from the grammar.',
)
CHECKS['C13'] = dict(
    technique='property-based testing (Hypothesis): metamorphic relations over value spellings, seven ways a property comes to exist, contexts and validation flags; differential against a structural reference for 60 CSS 2.1 property grammars; conjunction and annotation-only oracles',
    text='5k (name, value) pairs and 3k declaration blocks per quick run (150k/80k thorough): verdict equal across 4 spellings, 7 origins, round trip, @font-face context and all validation flags; agreement with a hand-written CSS 2.1 reference (valid => valid; invalid => invalid for single-profile properties); unknown names never valid; block/rule/sheet validity = conjunction; validate on/off serialise identically. Exploration.',
    note='Trusted: my CSS 2.1 keyword/type table; prose range restrictions, "+" numbers (F13-1) and system colours (F13-3, pinned by the suite) are outside the asserted region.',
)
CHECKS['C06'] = dict(
    technique='property-based testing (Hypothesis) over (DOM, preference assignment) pairs: oracle = pure function applying the documented effect of every preference to the DOM projection, compared with the projection of the reparsed output; token-level metamorphic relation for layout preferences; defaults-restore differential',
    text='2.5k (generated DOM, preference assignment) pairs per quick run (150k thorough): singles, pairs, minified preset and random full assignments of the 23 documented preferences; output must parse without logged syntax error, project like the DOM after the documented filters, keep the non-white-space tokens under layout-only assignments and return to the default bytes after useDefaults(); variables and the two special preferences have their own sub-checks. Exploration.',
    note='Trusted: the effect function (60 lines, from the Preferences docstring), DOM projection; numbers/hashes compared by value; emptiness = no declaration at any depth; indentSpecificities/lineNumbers only for no-exception and defaults-restore.',
)

CHECKS['C08'] = dict(
    technique='exhaustive table + generated import chains against a reference precedence ladder (differential via probe bytes); round trip under target encodings',
    text='Reference ladder (override > transport > BOM/@charset > referring sheet > UTF-8) decides the expected encoding of every sheet in import chains of depth 1-3 served by a recording fetcher; depth 1 exhaustive (override x transport x content x parent x delivery x fetcher result), deeper chains generated; observed through sheet.encoding and through probe bytes that decode differently under every candidate encoding. Entry points parseString/parseUrl/parseFile. Generated DOMs with non-ASCII content under 8 target encodings: encoding == @charset rule, cssText decodable, reparse gives the same projection.',
    note='A BOM that is decoded under a non-UTF-8 override/transport encoding becomes three characters of text; those rows check only the reported encoding.',
)

CHECKS['C19'] = dict(
    technique='model-predicted URL list and replacer metamorphic relations over generated sheets; generated import trees over a virtual file system against a reference expansion with urljoin as resolving oracle',
    text='urls: the abstract-stylesheet model predicts getUrls (imports first, document order, url() inside functions and nested rules); replaceUrls with a recording injective replacer, its inverse, the identity, ignoreImportRules and the declaration-level dispatch. flatten: generated trees of 2-6 sheets in 8 directories on two hosts (every href form, media edges, missing targets, unwrappable rule kinds, 15 URL forms) served by a recording fetcher; the flat sheet, its serialisation (normal/minified, 5 encodings) and script.csscombine on a real temporary tree are compared with a reference expansion: each rule once, cascade order, media context, every URL resolving to its original absolute URL, kept @imports justified, available targets fetched once.',
    note='Position of kept @imports is not judged; repeated requests for missing targets while flattening are the listed finding F19-1.',
)
