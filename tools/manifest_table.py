NOT_YET = {}
CHECKS['C05'] = dict(
    technique='property-based testing (Hypothesis) + enumeration: span-tiling/position oracle with an independent escape decoder, generated grammar-token sequences round trip, planted-error position check',
    text='Generated-input search: ~80k texts/token sequences per quick run (millions thorough) against a tiling + independent-decoder oracle, exact recovery of generated token sequences, and error-position agreement; finds counterexamples, does not prove absence.',
    note='Trusted: CPython re/str, Hypothesis, my 30-line escape decoder. Simple (non-hex) escapes and COMMENT/at-keyword value decoding are not asserted; EOF position unchecked after a completion.',
)
