#!/bin/bash
# usage: tools/confirm_mutant.sh C10 m1 [--notests]   (uses scratch worktree /tmp/wt/<PID>)
# Confirms a seeded change (demo passes on clean tree, fails with the patch, suite still passes),
# runs the property's quick check against the patched worktree, stores everything in seeded/<PID>-<mk>/.
PID=$1; MK=$2; NOTESTS=$3
SRC=/tmp/wtout/$PID/$MK
WT=/tmp/wt/$PID
V=/verif
[ -d "$WT" ] || git -C /repo worktree add -q --detach "$WT" HEAD
cd "$WT" || exit 2
git checkout -q -- . && git clean -qfd && git checkout -q --detach main
cp "$SRC/demo.py" /tmp/demo_${PID}_${MK}.py
( cd "$WT" && cp /tmp/demo_${PID}_${MK}.py ./_demo_tmp.py && timeout 600 /venv/bin/python _demo_tmp.py >/tmp/demo_${PID}_${MK}.clean.log 2>&1 ); CLEAN=$?
REBASED=no
git apply "$SRC/patch.diff" 2>/dev/null || { patch -p1 --fuzz=3 -s < "$SRC/patch.diff" && REBASED=yes; } || { echo "PATCH DOES NOT APPLY"; rm -f _demo_tmp.py *.rej *.orig; exit 3; }
find . -name '*.orig' -delete
git diff > /tmp/patch_${PID}_${MK}.rebased.diff
( cd "$WT" && timeout 600 /venv/bin/python _demo_tmp.py >/tmp/demo_${PID}_${MK}.mut.log 2>&1 ); MUT=$?
rm -f _demo_tmp.py
TESTS="skipped"
if [ "$NOTESTS" != "--notests" ]; then
  TESTS=$(cd "$WT" && /venv/bin/python -m pytest -q -p no:cacheprovider --timeout=900 -q 2>&1 | tail -4 | tr '\n' ' ')
fi
cd $V
OUT=$(VERIF_REPO=$WT VERIF_NO_EVIDENCE=1 VERIF_NOSHRINK=1 ./check $PID --tier quick 2>&1 | grep -v "^KNOWN-FINDING" | tail -6); RC=$?
mkdir -p seeded/$PID-$MK
cp "$SRC/demo.py" seeded/$PID-$MK/
cp /tmp/patch_${PID}_${MK}.rebased.diff seeded/$PID-$MK/patch.diff
CAUGHT=no; echo "$OUT" | grep -q "^VIOLATION" && CAUGHT=yes
/venv/bin/python - "$PID" "$MK" "$CLEAN" "$MUT" "$TESTS" "$CAUGHT" "$SRC/meta.json" <<'PY'
import json,sys
pid,mk,clean,mut,tests,caught,meta=sys.argv[1:8]
try: m=json.load(open(f'/verif/seeded/{pid}-{mk}/meta.json'))   # what was recorded before (with notes) stays
except Exception:
    try: m=json.load(open(meta))
    except Exception: m={}
if tests=='skipped':
    try: tests=json.load(open(f'/verif/seeded/{pid}-{mk}/meta.json')).get('suite_with_patch',tests)
    except Exception: pass
m.update({'property':pid,'id':f'{pid}-{mk}','demo_exit_clean_tree':int(clean),'demo_exit_with_patch':int(mut),
 'suite_with_patch':tests,'confirmed': int(clean)==0 and int(mut)!=0 and 'FAILED cssutils' not in tests,
 'what_i_ran':f'tools/confirm_mutant.sh {pid} {mk}: demo.py on clean worktree and with patch.diff applied, full pytest suite with patch, then ./check {pid} --tier quick with VERIF_REPO pointing at the patched worktree',
 'caught_by_quick_check':caught})
json.dump(m,open(f'/verif/seeded/{pid}-{mk}/meta.json','w'),indent=1)
print(f"{pid}-{mk}: demo clean={clean} mutated={mut} confirmed={m['confirmed']} caught={caught}")
PY
echo "   tests: $TESTS"
echo "$OUT" | sed 's/^/   /' | cut -c1-400
git -C "$WT" checkout -q -- . ; git -C "$WT" clean -qfd
