#!/usr/bin/env python3
"""Regenerates the generated parts of DESIGN.md (between the GENERATED markers) from known_findings.json,
seeded/*/meta.json and the check modules."""

import glob
import json
import os
import re
import subprocess

V = os.path.dirname(os.path.dirname(os.path.abspath(__file__)))


def findings_tables():
    d = json.load(open(os.path.join(V, 'known_findings.json')))['findings']
    subjects = {}
    try:
        out = subprocess.run(['git', '-C', '/repo', 'log', '--format=%h %s'], capture_output=True, text=True).stdout
        for line in out.splitlines():
            h, s = line.split(' ', 1)
            subjects[h[:7]] = s
    except OSError:
        pass
    lines = ['#### Open findings (genuine defects recorded, not repaired)', '',
             '| id | property | signature the check matches | what fails |', '|---|---|---|---|']
    for f in d:
        if f['status'] == 'open':
            lines.append('| %s | %s | `%s` | %s |' % (f['id'], f['property'], f['signature'], f['what'].replace('|', '\\|').replace('\n', ' ')))
    lines += ['', '#### Repaired defects (`fix:` commits in /repo; the witness of each is replayed on every run)', '',
              '| id | property | commit | what failed |', '|---|---|---|---|']
    for f in d:
        if f['status'] == 'fixed':
            what = re.sub(r'^fixed: property=\S+ \S+ ', '', f['what'])
            lines.append('| %s | %s | %s | %s |' % (f['id'], f['property'], f.get('commit', ''), what.replace('|', '\\|').replace('\n', ' ')))
    return '\n'.join(lines)


def seeded_table():
    lines = ['| seeded change | what it breaks (needs) | suite with the change | caught by `./check` (quick) |', '|---|---|---|---|']
    for m in sorted(glob.glob(os.path.join(V, 'seeded', '*', 'meta.json'))):
        j = json.load(open(m))
        name = os.path.basename(os.path.dirname(m))
        summ = (j.get('summary') or '')[:260].replace('|', '\\|').replace('\n', ' ')
        suite = j.get('suite_with_patch', '')
        suite = 'passes (only the two network doctests fail, as on the clean tree)' if 'FAILED encutils' in suite and suite.count('FAILED') == 2 else suite[:60]
        lines.append('| %s | %s | %s | %s |' % (name, summ, suite, j.get('caught_by_quick_check')))
    return '\n'.join(lines)


def rules_block():
    import importlib
    import sys
    sys.path[:0] = [os.environ.get('VERIF_REPO', '/repo'), V, os.path.join(V, '.deps')]
    from vlib.runner import REPORTED_RULE
    import cssutils
    cssutils.log.setLevel(60)
    out = []
    for f in sorted(glob.glob(os.path.join(V, 'checks', 'c*.py'))):
        mod = importlib.import_module('checks.' + os.path.basename(f)[:-3])
        out.append('#### %s' % mod.PROPERTY)
        out.append('')
        out.append('Subs (cases quick / thorough; `enum` = finite table enumerated, exhaustively in the thorough tier):')
        out.append('')
        for sub in mod.SUBS:
            if sub.enumerate is not None:
                out.append('* `%s` — enum' % sub.name)
            else:
                out.append('* `%s` — %s / %s generated cases' % (sub.name, sub.n['quick'], sub.n['thorough']))
        out.append('')
        out.append('Domain, oracle and non-triviality rule (this text is also written to the evidence file): ' + mod.RULE + (REPORTED_RULE if any(x.name == 'reported' for x in mod.SUBS) else ''))
        out.append('')
        out.append('Assumptions: ' + '; '.join(mod.ASSUMPTIONS) + '.')
        out.append('')
    return '\n'.join(out)


def main():
    p = os.path.join(V, 'DESIGN.md')
    s = open(p).read()
    for tag, fn in (('FINDINGS', findings_tables), ('SEEDED', seeded_table), ('RULES', rules_block)):
        a, b = f'<!-- GENERATED:{tag} -->', f'<!-- /GENERATED:{tag} -->'
        if a in s and b in s:
            s = s[:s.index(a) + len(a)] + '\n' + fn() + '\n' + s[s.index(b):]
    open(p, 'w').write(s)


if __name__ == '__main__':
    main()
