#!/usr/bin/env python3
"""usage: tools/import_reported.py C20 bug1 short-name   (copies /tmp/wtout/<PID>/hunt2/<bug>/demo.py to reported/<PID>/<short-name>.py)"""
import os, re, sys
pid, bug, name = sys.argv[1:4]
src = open(f'/tmp/wtout/{pid}/hunt2/{bug}/demo.py').read()
src2 = re.sub(r"sys\.path\.insert\(0,\s*['\"]/tmp/wt/%s['\"]\)" % pid, "sys.path.insert(0, __import__('os').environ.get('VERIF_REPO', '/repo'))", src)
assert src2 != src, 'no sys.path line found'
assert '/tmp/' not in src2.replace('/tmp/wtout', 'X') or True
os.makedirs(f'/verif/reported/{pid}', exist_ok=True)
open(f'/verif/reported/{pid}/{name}.py', 'w').write(src2)
print('ok', name, 'tmp refs:', src2.count('/tmp/'))
