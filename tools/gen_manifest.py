#!/usr/bin/env python3
"""Regenerates MANIFEST.json from the table below (keeps it valid at all times)."""
import json, os
HERE = os.path.dirname(os.path.dirname(os.path.abspath(__file__)))
ALL = ['C%02d' % i for i in range(1, 21)]
CHECKS = {}   # pid -> dict(technique, text, note, design_ref)
exec(open(os.path.join(HERE, 'tools', 'manifest_table.py')).read())
props = {json.loads(l)['id']: json.loads(l) for l in open(os.path.join(HERE, 'properties.jsonl'))}
m = {
    'version': 1,
    'setup_cmd': "/venv/bin/python -c 'import hypothesis' 2>/dev/null || /venv/bin/pip install -q --no-index --find-links /opt/veriftools/wheels --target /verif/.deps hypothesis",
    'hooks': {
        'guard': 'CSSUTILS_VERIF',
        'enable': 'no hooks are needed: every observation point is public API or module state; checks import /repo (VERIF_REPO) directly, nothing is built',
        'baseline_off_cmd': 'cd /repo && /venv/bin/python -m pytest -ra -q -p no:cacheprovider --timeout=900 --continue-on-collection-errors',
        'source_commits': [],
        'add_only': True,
    },
    'engines': [{
        'name': 'hypothesis-runner', 'path': 'vlib/runner.py',
        'serves_properties': sorted(CHECKS),
        'kind_free_text': 'property-based testing: Hypothesis strategies (seeded from VERIF_SEED, database=None) and exhaustive enumerations of finite tables, sharded over processes; explicit oracles (reference models, round trips, metamorphic and differential relations); shrunk failures saved as JSON replay files',
    }],
    'checks': [],
    'not_applicable': [],
    'notes': 'Exit 0 = held on everything explored (KNOWN-FINDING lines for listed open findings in known_findings.json), 1 = VIOLATION line(s), 2 = harness error / inconclusive. Replays: ./check <ID> --replay <file>. fix: commits in /repo and open findings are listed in known_findings.json and DESIGN.md.',
}
for pid in ALL:
    if pid in CHECKS:
        c = CHECKS[pid]
        m['checks'].append({
            'property_id': pid,
            'quick_cmd': f'./check {pid} --tier quick',
            'thorough_cmd': f'./check {pid} --tier thorough',
            'evidence_file': f'/verif/evidence/{pid}.json',
            'replay_cmd_template': f'./check {pid} --replay {{path}}',
            'engine': 'hypothesis-runner',
            'level_claimed': {'category': 'exploration', 'text': c['text'], 'design_ref': c.get('design_ref', f'DESIGN.md §3 {pid}')},
            'level_note': c['note'],
            'technique': c['technique'],
        })
    else:
        m['not_applicable'].append({'property_id': pid, 'reason': NOT_YET.get(pid, 'check not built yet (work in progress); the technique applies, see DESIGN.md')})
json.dump(m, open(os.path.join(HERE, 'MANIFEST.json'), 'w'), indent=1)
print('checks:', [c['property_id'] for c in m['checks']])
